/-
Non-vacuity witnesses, group D: C09 (names), C14 (interner refinement / histories),
C15 (schedules), C16 (ordering).

Every hypothesis-carrying theorem of those four files is APPLIED here to concrete, non-trivial
arguments, so that Lean checks that all hypotheses (and all type-class assumptions) can be
discharged together.  The interner states used are *reachable*: they are obtained from
`IState.empty` by running `internTree` / `andI` on concrete diagrams, and their shape is pinned
down by `decide` (arena of 4–7 nodes, non-empty memo cache, complemented ids).

No theorem of this group was found vacuous.
-/
import Pep508.Theorems.C09
import Pep508.Theorems.C14
import Pep508.Theorems.C15
import Pep508.Theorems.C16
import Pep508.Proofs.ValOrder
namespace Pep508.NonVacuityD
open Pep508

/-! ## C09 — names

`accept_iff_valid`, `owned_eq_borrowed`, `dist_info`, `empty_rejected` are unconditional.
The others carry `validateRef s = some r`; C09.lean already has a `decide` example showing it is
satisfiable for `"Fo_.-Bar"`; here the theorems are applied to it. -/
section C09
open Pep508.Names

/-- `"Fo_.-Bar"` -/
def nameS : List Nat := [70, 111, 95, 46, 45, 66, 97, 114]
/-- `"FO--bar"` : a different spelling with the same normal form -/
def nameT : List Nat := [70, 79, 45, 45, 98, 97, 114]
/-- `"fo-bar"` -/
def nameR : List Nat := [102, 111, 45, 98, 97, 114]
/-- `"fo.baz9"` : a name with another normal form -/
def nameU : List Nat := [102, 111, 46, 98, 97, 122, 57]

theorem hS : validateRef nameS = some nameR := by decide
theorem hT : validateRef nameT = some nameR := by decide
theorem hU : validateRef nameU = some [102, 111, 45, 98, 97, 122, 57] := by decide

/-- both sides of `accept_iff_valid` are inhabited (true for `nameS`, false for `"fo-"`) -/
example : ValidName nameS := (C09.accept_iff_valid nameS).1 (by decide)
example : ¬ ValidName [102, 111, 45] := fun h => absurd ((C09.accept_iff_valid _).2 h) (by decide)

theorem nv_stored_is_normal_form : nameR = normSpec nameS := C09.stored_is_normal_form nameS nameR hS
theorem nv_idempotent : validateRef nameR = some nameR := C09.idempotent nameS nameR hS
/-- two different accepted spellings, equal stored forms: both sides of the `↔` TRUE -/
theorem nv_eq_iff_norm_eq : nameR = nameR ↔ normSpec nameS = normSpec nameT :=
  C09.eq_iff_norm_eq nameS nameT nameR nameR hS hT
example : nameS ≠ nameT ∧ normSpec nameS = normSpec nameT := ⟨by decide, nv_eq_iff_norm_eq.1 rfl⟩
/-- … and an instance where both sides are FALSE -/
theorem nv_eq_iff_norm_eq' : normSpec nameS ≠ normSpec nameU := fun h =>
  absurd ((C09.eq_iff_norm_eq nameS nameU nameR _ hS hU).2 h) (by decide)

end C09

/-! ## C14 — a reachable, non-empty interner state

Four well-formed diagrams over `Tree Nat Nat Nat` are loaded into the empty interner, then
conjoined.  `sBase` has 4 nodes, `sAnd1` 5 nodes and one memo entry, `sAnd2` 6 nodes and two. -/
section C14

abbrev T := Tree Nat Nat Nat
abbrev S := IState Nat Nat Nat

/-- `v0 < 3` -/
def tA : T := .rng 0 (.cons ⟨.unb, .excl 3⟩ (.leaf true) (.cons ⟨.incl 3, .unb⟩ (.leaf false) .nil))
/-- `v0 >= 1` (stored complemented: first child must be uncomplemented) -/
def tB : T := .rng 0 (.cons ⟨.unb, .excl 1⟩ (.leaf false) (.cons ⟨.incl 1, .unb⟩ (.leaf true) .nil))
/-- boolean variable `b0` -/
def tC : T := .bool 0 (.leaf true) (.leaf false)
/-- `v1 <= 7 and b0` : two levels, shares the node of `tC` -/
def tD : T := .rng 1 (.cons ⟨.unb, .incl 7⟩ tC (.cons ⟨.excl 7, .unb⟩ (.leaf false) .nil))

theorem wfA : tA.wf = true := by decide
theorem wfB : tB.wf = true := by decide
theorem wfD : tD.wf = true := by decide

def r1 := internTree (IState.empty : S) tA
def r2 := internTree r1.1 tB
def r3 := internTree r2.1 tD
def sBase : S := r3.1
def xA : Id := r1.2
def xB : Id := r2.2
def xD : Id := r3.2

/-- the state and the ids, concretely -/
example : sBase.nodes.length = 4 ∧ sBase.cache = [] ∧
    xA = .ref 0 false ∧ xB = .ref 1 true ∧ xD = .ref 3 false := by decide
example : sBase.nodes[3]? = some (.rng 1 [(⟨.unb, .incl 7⟩, .ref 2 false), (⟨.excl 7, .unb⟩, .ff)]) := by
  decide

theorem inv1 : r1.1.Inv := (internTree_wf tA _ C14.inv_init wfA).1
theorem inv2 : r2.1.Inv := (internTree_wf tB _ inv1 wfB).1
theorem sBase_inv : sBase.Inv := (internTree_wf tD _ inv2 wfD).1

instance (s : S) (id : Id) : Decidable (Id.Valid s id) := decidable_of_iff _ (Id.valid_iff s id).symm

theorem vA : Id.Valid sBase xA := by decide
theorem vB : Id.Valid sBase xB := by decide
theorem vD : Id.Valid sBase xD := by decide

theorem denA : den sBase xA = tA := by decide
theorem denB : den sBase xB = tB := by decide
theorem denD : den sBase xD = tD := by decide

/-- the fuel hypotheses are met by an explicit small number -/
theorem fuelAB : (den sBase xA).size + (den sBase xB).size < 11 := by decide
theorem fuelAD : (den sBase xA).size + (den sBase xD).size < 14 := by decide

/-! ### `ids_canonical` -/
theorem nv_ids_canonical : den sBase xA = den sBase xB ↔ xA = xB := C14.ids_canonical sBase_inv vA vB
theorem nv_ids_canonical' : den sBase xD = den sBase xD ↔ xD = xD := C14.ids_canonical sBase_inv vD vD

/-! ### `and_refines` on the reachable state (no cache hit: the product case of two range nodes) -/
def a1 := andI 11 sBase xA xB
def sAnd1 : S := a1.1
theorem nv_and_refines : sAnd1.Inv ∧ sBase.Le sAnd1 ∧ Id.Valid sAnd1 a1.2 ∧
    den sAnd1 a1.2 = Tree.and (den sBase xA) (den sBase xB) :=
  C14.and_refines 11 sBase xA xB sBase_inv vA vB fuelAB

/-- the step really did something: a new node, a new (complemented) id, a memo entry -/
example : sAnd1.nodes.length = 5 ∧ a1.2 = .ref 4 true ∧
    sAnd1.cache = [((.ref 0 false, .ref 1 true), .ref 4 true)] := by decide
/-- the resulting diagram: `1 <= v0 < 3` -/
example : Tree.and tA tB = .rng 0 (.cons ⟨.unb, .excl 1⟩ (.leaf false)
    (.cons ⟨.incl 1, .excl 3⟩ (.leaf true) (.cons ⟨.incl 3, .unb⟩ (.leaf false) .nil))) := by decide

/-! ### `and_refines` again, now on a state with a NON-EMPTY memo cache (`sAnd1`), operands of
different variables (the `mapEdgesI` case, recursion depth 2) -/
theorem sAnd1_inv : sAnd1.Inv := nv_and_refines.1
theorem le01 : sBase.Le sAnd1 := nv_and_refines.2.1
def a2 := andI 14 sAnd1 xA xD
def sAnd2 : S := a2.1
theorem fuelAD1 : (den sAnd1 xA).size + (den sAnd1 xD).size < 14 := by decide
theorem nv_and_refines_cache : sAnd2.Inv ∧ sAnd1.Le sAnd2 ∧ Id.Valid sAnd2 a2.2 ∧
    den sAnd2 a2.2 = Tree.and (den sAnd1 xA) (den sAnd1 xD) :=
  C14.and_refines 14 sAnd1 xA xD sAnd1_inv (vA.mono le01) (vD.mono le01) fuelAD1
example : sAnd2.nodes.length = 6 ∧ a2.2 = .ref 5 false ∧ sAnd2.cache.length = 2 := by decide
theorem sAnd2_inv : sAnd2.Inv := nv_and_refines_cache.1
theorem le12 : sAnd1.Le sAnd2 := nv_and_refines_cache.2.1

/-! ### `old_ids_stable` : a genuinely larger later state -/
theorem nv_old_ids_stable : den sAnd2 xD = den sBase xD :=
  C14.old_ids_stable sBase_inv (le01.trans le12) vD

/-! ### `or_refines` (the fuel hypothesis is on the operands themselves, `orI` negates them) -/
theorem nv_or_refines : (orI 11 sBase xA xB).1.Inv ∧ sBase.Le (orI 11 sBase xA xB).1 ∧
    Id.Valid (orI 11 sBase xA xB).1 (orI 11 sBase xA xB).2 ∧
    den (orI 11 sBase xA xB).1 (orI 11 sBase xA xB).2 = Tree.or (den sBase xA) (den sBase xB) :=
  C14.or_refines 11 sBase xA xB sBase_inv vA vB fuelAB
/-- `v0 < 3 or v0 >= 1` is TRUE -/
example : (orI 11 sBase xA xB).2 = .tt := by decide

/-! ### `create_node_refines` : a new boolean node over two existing (one complemented) ids -/
def newNode : INode Nat Nat Nat := .bool 5 xB xA
theorem newNode_valid : ∀ c ∈ newNode.children, Id.Valid sBase c := by decide
theorem nv_create_node_refines : (createNodeI sBase newNode).1.Inv ∧ sBase.Le (createNodeI sBase newNode).1 ∧
    Id.Valid (createNodeI sBase newNode).1 (createNodeI sBase newNode).2 ∧
    den (createNodeI sBase newNode).1 (createNodeI sBase newNode).2 = createNodeT sBase newNode :=
  C14.create_node_refines sBase_inv newNode newNode_valid
/-- first child `xB` is complemented, so the node is stored flipped and referenced complemented -/
example : (createNodeI sBase newNode).2 = .ref 4 true ∧
    (createNodeI sBase newNode).1.nodes[4]? = some (.bool 5 (.ref 1 false) (.ref 0 true)) := by decide

/-! ### `cache_transparent` on a state whose cache HITS for the operands -/
theorem nv_cache_transparent :
    den (andI 11 sAnd2 xA xB).1 (andI 11 sAnd2 xA xB).2 =
      den (andI 11 { sAnd2 with cache := [] } xA xB).1 (andI 11 { sAnd2 with cache := [] } xA xB).2 :=
  C14.cache_transparent 11 sAnd2 xA xB sAnd2_inv ((vA.mono le01).mono le12) ((vB.mono le01).mono le12)
    (by decide)
/-- it is a hit (state unchanged), while the run with the cache wiped recomputes and re-caches -/
example : (andI 11 sAnd2 xA xB).1.cache.length = 2 ∧
    (andI 11 { sAnd2 with cache := [] } xA xB).1.cache.length = 1 := by decide

/-! ### `same_id_later` : recomputation in the later state `sAnd2` with other fuel -/
theorem nv_same_id_later : (andI 40 sAnd2 xA xB).2 = (andI 11 sBase xA xB).2 :=
  C14.same_id_later 11 40 sBase sAnd2 xA xB sBase_inv sAnd2_inv vA vB le12 fuelAB (by decide)

/-! ### `history_independent` : a second interner with ANOTHER history (other insertion order,
other ids for the same diagrams) -/
def q1 := internTree (IState.empty : S) tD
def q2 := internTree q1.1 tB
def q3 := internTree q2.1 tA
def sOther : S := q3.1
def yA : Id := q3.2
def yB : Id := q2.2
example : sOther.nodes.length = 4 ∧ yA = .ref 3 false ∧ yB = .ref 2 true ∧ yA ≠ xA ∧ yB ≠ xB ∧
    sOther.nodes ≠ sBase.nodes := by decide
theorem sOther_inv : sOther.Inv :=
  (internTree_wf tA _ (internTree_wf tB _ (internTree_wf tD _ C14.inv_init wfD).1 wfB).1 wfA).1
theorem nv_history_independent :
    den (andI 11 sBase xA xB).1 (andI 11 sBase xA xB).2 =
      den (andI 25 sOther yA yB).1 (andI 25 sOther yA yB).2 :=
  C14.history_independent 11 25 sBase sOther xA xB yA yB sBase_inv sOther_inv vA vB
    (by decide) (by decide) (by decide) (by decide) fuelAB (by decide)
/-- the ids differ between the two histories, the diagrams do not -/
example : (andI 11 sBase xA xB).1.nodes ≠ (andI 25 sOther yA yB).1.nodes ∧
    den (andI 11 sBase xA xB).1 (andI 11 sBase xA xB).2 = .rng 0 (.cons ⟨.unb, .excl 1⟩ (.leaf false)
      (.cons ⟨.incl 1, .excl 3⟩ (.leaf true) (.cons ⟨.incl 3, .unb⟩ (.leaf false) .nil))) := by decide

/-! ### `and_after_any_history` from the state `sAnd2` (6 nodes, 2 memo entries) -/
theorem nv_and_after_any_history :
    let s1 := (internTree sAnd2 tB).1
    let x := (internTree sAnd2 tB).2
    let s2 := (internTree s1 tD).1
    let y := (internTree s1 tD).2
    den (andI 14 s2 x y).1 (andI 14 s2 x y).2 = Tree.and tB tD :=
  C14.and_after_any_history 14 sAnd2 sAnd2_inv tB tD wfB wfD (by decide)

/-! the class assumptions of C14/C15 (`LT`, `DecidableLT`, `DecidableEq` only) are met by the
model's own types -/
example : (IState.empty : IState VarR VarB Val).Inv := C14.inv_init

end C14

/-! ## C15 — a concrete non-trivial schedule of two threads

Thread 1: `p := A ∧ B`, then `p ∧ D` (its second step uses the id its first step CREATED).
Thread 2: `A ∧ D`, then `B ∧ D`.
Interleaving `t1.1, t2.1, t1.2, t2.2`. -/
section C15
open Pep508.C15

def pAB : Id := .ref 4 true
def sched : List Step := [⟨xA, xB, 11⟩, ⟨xA, xD, 14⟩, ⟨pAB, xD, 20⟩, ⟨xB, xD, 14⟩]
/-- the other interleaving `t2.1, t1.1, t2.2, t1.2` : there `A ∧ B` gets index 5 -/
def sched' : List Step := [⟨xA, xD, 14⟩, ⟨xA, xB, 11⟩, ⟨xB, xD, 14⟩, ⟨.ref 5 true, xD, 20⟩]

instance schedDec : (s : S) → (l : List Step) → Decidable (Schedulable s l)
  | _, [] => isTrue trivial
  | s, st :: rest =>
    have := schedDec (andI st.fuel s st.x st.y).1 rest
    inferInstanceAs (Decidable (_ ∧ _ ∧ _ ∧ _))

theorem sched_ok : Schedulable sBase sched := by decide
theorem sched_ok' : Schedulable sBase sched' := by decide
/-- `pAB` does not exist before thread 1's first step: the schedule is not schedulable in another
    order, i.e. `Schedulable` is a real constraint -/
example : ¬ Schedulable sBase [⟨pAB, xD, 20⟩, ⟨xA, xB, 11⟩] := by decide

theorem nv_schedule_inv : (runSchedule sBase sched).Inv ∧ sBase.Le (runSchedule sBase sched) :=
  schedule_inv sBase sBase_inv sched sched_ok
/-- the schedule creates 4 nodes and 4 memo entries -/
example : (runSchedule sBase sched).nodes.length = 8 ∧ (runSchedule sBase sched).cache.length = 4 ∧
    (runSchedule sBase sched').nodes.length = 8 := by decide
/-- the two interleavings end in DIFFERENT arenas (so "independent of the interleaving" has content) -/
example : (runSchedule sBase sched).nodes ≠ (runSchedule sBase sched').nodes := by decide

/-- a third thread's `B ∧ A` after either interleaving -/
theorem nv_step_result :
    let s' := runSchedule sBase sched
    den (andI 11 s' xB xA).1 (andI 11 s' xB xA).2 = Tree.and (den sBase xB) (den sBase xA) :=
  step_result_independent_of_interleaving sBase sBase_inv sched sched_ok xB xA vB vA 11 (by decide)
theorem nv_step_result' :
    let s' := runSchedule sBase sched'
    den (andI 11 s' xB xA).1 (andI 11 s' xB xA).2 = Tree.and (den sBase xB) (den sBase xA) :=
  step_result_independent_of_interleaving sBase sBase_inv sched' sched_ok' xB xA vB vA 11 (by decide)

/-- two threads racing for `A ∧ B`, three foreign steps in between -/
def between : List Step := [⟨xA, xD, 14⟩, ⟨pAB, xD, 20⟩, ⟨xB, xD, 14⟩]
theorem between_ok : Schedulable (andI 11 sBase xA xB).1 between := by decide
theorem nv_racing_threads_same_id :
    (andI 30 (runSchedule (andI 11 sBase xA xB).1 between) xA xB).2 = (andI 11 sBase xA xB).2 :=
  racing_threads_same_id sBase sBase_inv xA xB vA vB 11 30 fuelAB (by decide) between between_ok

end C15

/-! ## C16 — ordering

`cmp_eq_iff`, `cmp_eq_iff_beq`, `cmp_swap`, `cmp_total` are unconditional; the others have
hypotheses about `cmp`.  Instantiated at `Tree Nat Nat Nat` and at the model's own
`MTree = Tree VarR VarB Val` (instances from `Proofs/ValOrder.lean`), which checks the class
assumptions `IsLinearOrder` / `LawfulOrderLT` at the types the model actually uses. -/
section C16

/-- `leaf false < tB < tA` -/
theorem nv_cmp_trans : (Tree.leaf false : T).cmp tA = .lt :=
  C16.cmp_trans (.leaf false) tB tA (by decide) (by decide)
theorem nv_cmp_trans_le : tA.cmp tD ≠ .gt :=
  C16.cmp_trans_le tA tA tD (by decide) (by decide)
theorem nv_sorted_unique : [Tree.leaf false, tB, tB, tA, tD, tC] = [Tree.leaf false, tB, tB, tA, tD, tC] :=
  C16.sorted_unique _ _ (List.Perm.refl _) (by decide) (by decide)
/-- used the way it is meant: a sorted list and a sorted permutation of it coincide, so a
    non-identity permutation of a sorted list is not sorted -/
example : ¬ [tA, Tree.leaf false, tB].Pairwise (fun x y => x.cmp y ≠ .gt) := fun h =>
  absurd (C16.sorted_unique [Tree.leaf false, tB, tA] [tA, Tree.leaf false, tB]
    (by decide) (by decide) h) (by decide)
theorem nv_strictSorted_unique : [Tree.leaf false, tB, tA, tD, tC] = [Tree.leaf false, tB, tA, tD, tC] :=
  C16.strictSorted_unique _ _ (fun _ => Iff.rfl) (by decide) (by decide)
/-- with genuinely different list expressions (same set, other multiplicity is excluded by strictness) -/
example : ¬ [tA, Tree.leaf false].Pairwise (fun x y => x.cmp y = .lt) := fun h =>
  absurd (C16.strictSorted_unique [Tree.leaf false, tA] [tA, Tree.leaf false]
    (by intro x; simp [List.mem_cons]; exact Or.comm) (by decide) h) (by decide)

/-! at the model's types -/
/-- `python_full_version < 3.8` -/
def mA : MTree := .rng (.ver .pyVer)
  (.cons ⟨.unb, .excl (.ver [3, 8])⟩ (.leaf true) (.cons ⟨.incl (.ver [3, 8]), .unb⟩ (.leaf false) .nil))
/-- `python_full_version >= 3.10` -/
def mB : MTree := .rng (.ver .pyVer)
  (.cons ⟨.unb, .excl (.ver [3, 10])⟩ (.leaf false) (.cons ⟨.incl (.ver [3, 10]), .unb⟩ (.leaf true) .nil))
/-- `implementation_version < 3.8` (smaller variable) -/
def mC : MTree := .rng (.ver .implVer)
  (.cons ⟨.unb, .excl (.ver [3, 8])⟩ (.leaf true) (.cons ⟨.incl (.ver [3, 8]), .unb⟩ (.leaf false) .nil))

theorem nv_cmp_trans_M : mC.cmp mB = .lt := C16.cmp_trans mC mA mB (by decide) (by decide)
theorem nv_cmp_trans_le_M : mC.cmp mB ≠ .gt := C16.cmp_trans_le mC mA mB (by decide) (by decide)
theorem nv_sorted_unique_M : [mC, mA, mA, mB] = [mC, mA, mA, mB] :=
  C16.sorted_unique _ _ (List.Perm.refl _) (by decide) (by decide)
theorem nv_strictSorted_unique_M : [mC, mA, mB] = [mC, mA, mB] :=
  C16.strictSorted_unique _ _ (fun _ => Iff.rfl) (by decide) (by decide)
example : (mA.cmp mB = .eq ↔ mA = mB) ∧ mB.cmp mA = (mA.cmp mB).swap ∧
    (mA.cmp mB = .lt ∨ mA = mB ∨ mB.cmp mA = .lt) :=
  ⟨C16.cmp_eq_iff mA mB, C16.cmp_swap mA mB, C16.cmp_total mA mB⟩

end C16

end Pep508.NonVacuityD

section AxiomCheck
open Pep508.NonVacuityD
#print axioms nv_stored_is_normal_form
#print axioms nv_eq_iff_norm_eq
#print axioms sBase_inv
#print axioms nv_and_refines
#print axioms nv_and_refines_cache
#print axioms nv_cache_transparent
#print axioms nv_same_id_later
#print axioms nv_history_independent
#print axioms nv_and_after_any_history
#print axioms nv_schedule_inv
#print axioms nv_step_result
#print axioms nv_racing_threads_same_id
#print axioms nv_sorted_unique
#print axioms nv_strictSorted_unique_M
end AxiomCheck
