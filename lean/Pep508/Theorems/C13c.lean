/-
C13 (third part) — exactness of `evaluate_extras` AT THE MODEL'S VALUE TYPE.

`C13.evaluate_extras_exact` asks every valid interval of the value order to be inhabited; that is
false over `Val` (`NonVacuityA.val_not_valid_inhabited`) and the conclusion fails there for
`python_full_version < '0'` (`NonVacuityA.evaluate_extras_exact_fails_at_Val`).  For diagrams whose
bounds are separated values (`AllB SepV`) every edge is inhabited
(`C03.separated_intervals_inhabited`), so the per-diagram form applies: `evaluate_extras_iff_val`.
The generic statement is relative to any bound predicate `P` whose valid intervals are inhabited.
-/
import Pep508.Proofs.ExtrasExactRel
import Pep508.Proofs.ValDense
import Pep508.Theorems.C13b
import Pep508.Theorems.C03b
import Pep508.Theorems.NonVacuityA
set_option linter.unusedSectionVars false
namespace Pep508.C13
open Pep508

section Generic
variable {νr νb α : Type}
variable [LT α] [LE α] [Std.IsLinearOrder α] [Std.LawfulOrderLT α] [DecidableLT α] [DecidableEq α]
variable [LT νr] [LE νr] [Std.IsLinearOrder νr] [Std.LawfulOrderLT νr] [DecidableLT νr] [DecidableEq νr]
variable [LT νb] [LE νb] [Std.IsLinearOrder νb] [Std.LawfulOrderLT νb] [DecidableLT νb] [DecidableEq νb]

/-- every edge of a well-formed diagram with bounds in `P` is inhabited -/
theorem edges_inhabited_rel (P : α → Prop)
    (inh : ∀ iv : Ivl α, iv.valid = true → Ivl.Kind P iv → ∃ a, iv.mem a = true)
    (t : Tree νr νb α) (hwf : t.wf = true) (bt : t.AllB P) : t.EdgesInh :=
  Tree.EdgesInh_of_wf_rel P inh t hwf bt

/-- (E1) relative to `P` -/
theorem evaluate_extras_exact_rel [Nonempty α] (P : α → Prop)
    (inh : ∀ iv : Ivl α, iv.valid = true → Ivl.Kind P iv → ∃ a, iv.mem a = true)
    (ex : νb → Option Bool) (t : Tree νr νb α) (hwf : t.wf = true) (bt : t.AllB P)
    (h : t.evalExtras ex = true) :
    ∃ ρ : Env νr νb α, (∀ v b, ex v = some b → ρ.bv v = b) ∧ t.eval ρ = true :=
  evalExtras_exact_rel P inh ex t hwf bt h

/-- (E2) relative to `P` -/
theorem evaluate_extras_iff_rel [Nonempty α] (P : α → Prop)
    (inh : ∀ iv : Ivl α, iv.valid = true → Ivl.Kind P iv → ∃ a, iv.mem a = true)
    (ex : νb → Option Bool) (t : Tree νr νb α) (hwf : t.wf = true) (bt : t.AllB P) :
    t.evalExtras ex = true ↔
      ∃ ρ : Env νr νb α, (∀ v b, ex v = some b → ρ.bv v = b) ∧ t.eval ρ = true :=
  ⟨evaluate_extras_exact_rel P inh ex t hwf bt, evaluate_extras_sound ex t⟩

end Generic

/-! ### at `Val` -/

/-- every edge of a well-formed marker diagram with separated bounds contains a value -/
theorem edges_inhabited_val (t : MTree) (hwf : t.wf = true) (bt : t.AllB SepV) : t.EdgesInh :=
  edges_inhabited_rel SepV C03.separated_intervals_inhabited t hwf bt

/-- **(E1) at `Val`**: on a well-formed diagram with separated bounds the answer `true` of
    `evaluate_extras` is witnessed by an environment compatible with the known extras -/
theorem evaluate_extras_exact_val (ex : VarB → Option Bool) (t : MTree) (hwf : t.wf = true)
    (bt : t.AllB SepV) (h : t.evalExtras ex = true) :
    ∃ ρ : Env VarR VarB Val, (∀ v b, ex v = some b → ρ.bv v = b) ∧ t.eval ρ = true :=
  haveI : Nonempty Val := ⟨.ver []⟩
  evaluate_extras_exact_rel SepV C03.separated_intervals_inhabited ex t hwf bt h

/-- **(E2) at `Val`**: `evaluate_extras` decides satisfiability under the known extras -/
theorem evaluate_extras_iff_val (ex : VarB → Option Bool) (t : MTree) (hwf : t.wf = true)
    (bt : t.AllB SepV) :
    t.evalExtras ex = true ↔
      ∃ ρ : Env VarR VarB Val, (∀ v b, ex v = some b → ρ.bv v = b) ∧ t.eval ρ = true :=
  ⟨evaluate_extras_exact_val ex t hwf bt, evaluate_extras_sound ex t⟩

/-- negative form -/
theorem evaluate_extras_false_iff_val (ex : VarB → Option Bool) (t : MTree) (hwf : t.wf = true)
    (bt : t.AllB SepV) :
    t.evalExtras ex = false ↔
      ∀ ρ : Env VarR VarB Val, (∀ v b, ex v = some b → ρ.bv v = b) → t.eval ρ = false := by
  constructor
  · intro h ρ hρ; exact evaluate_extras_false ex t h ρ hρ
  · intro h
    cases ht : t.evalExtras ex with
    | false => rfl
    | true =>
      obtain ⟨ρ, hρ, hev⟩ := evaluate_extras_exact_val ex t hwf bt ht
      rw [h ρ hρ] at hev; cases hev

/-- the separation hypothesis cannot be dropped: `python_full_version < '0'` is well-formed, is
    answered `true`, is satisfied by no environment — and its bound `0` is not separated -/
theorem evaluate_extras_val_needs_sep (ex : VarB → Option Bool) :
    NonVacuityA.belowZero.wf = true ∧ ¬ NonVacuityA.belowZero.AllB SepV ∧
    NonVacuityA.belowZero.evalExtras ex = true ∧
      ¬ ∃ ρ : Env VarR VarB Val, (∀ v b, ex v = some b → ρ.bv v = b) ∧
        NonVacuityA.belowZero.eval ρ = true := by
  obtain ⟨h1, h2, h3⟩ := NonVacuityA.evaluate_extras_exact_fails_at_Val ex
  refine ⟨h1, ?_, h2, h3⟩
  intro hb
  exact h3 (evaluate_extras_exact_val ex _ h1 hb h2)

/-! ### non-vacuity: `python_full_version >= '3.8' and os_name == 'a' and extra == 'x'` -/

/-- built by the model's own `expression` / `and` -/
def exV : MTree :=
  Tree.and (Tree.and (expression (.version .pfv ⟨.ge, [3, 8]⟩)) (expression (.string ⟨1⟩ .eq "a")))
    (expression (.extra false (.extra "x")))

theorem exV_wf : exV.wf = true := by decide

theorem exV_sep : exV.AllB SepV := by
  refine C03.bounds_and SepV _ _ (C03.bounds_and SepV _ _ ?_ ?_) ?_
  · have e : expression (.version .pfv ⟨.ge, [3, 8]⟩) =
        .rng (.ver .pfv) (.cons ⟨.unb, .excl (.ver [3, 8])⟩ (.leaf false)
          (.cons ⟨.incl (.ver [3, 8]), .unb⟩ (.leaf true) .nil)) := by decide
    rw [e]
    simp [Tree.AllB, Edges.AllB, Ivl.Kind, Bnd.Kind, SepV]
  · have e : expression (.string ⟨1⟩ .eq "a") =
        .rng (.str ⟨1⟩) (.cons ⟨.unb, .excl (.str "a")⟩ (.leaf false)
          (.cons ⟨.incl (.str "a"), .incl (.str "a")⟩ (.leaf true)
            (.cons ⟨.excl (.str "a"), .unb⟩ (.leaf false) .nil))) := by decide
    rw [e]
    simp only [Tree.AllB, Edges.AllB, Ivl.Kind, Bnd.Kind, SepV, and_true, true_and, and_self]
    decide
  · have e : expression (.extra false (.extra "x")) =
        .bool (.extra (.extra "x")) (.leaf true) (.leaf false) := by decide
    rw [e]
    exact ⟨trivial, trivial⟩

/-- the iff instantiated (every hypothesis discharged) -/
theorem nv_evaluate_extras_iff_val (ex : VarB → Option Bool) : exV.evalExtras ex = true ↔
    ∃ ρ : Env VarR VarB Val, (∀ v b, ex v = some b → ρ.bv v = b) ∧ exV.eval ρ = true :=
  evaluate_extras_iff_val ex exV exV_wf exV_sep

/-- with the extra `x` active the answer is `true`, and the theorem produces a witness … -/
theorem nv_exact_val_active :
    ∃ ρ : Env VarR VarB Val,
      (∀ v b, (fun v => if v = .extra (.extra "x") then some true else none) v = some b → ρ.bv v = b) ∧
        exV.eval ρ = true :=
  evaluate_extras_exact_val _ exV exV_wf exV_sep (by decide)

/-- … with the extra inactive the answer is `false` -/
example : exV.evalExtras (fun v => if v = .extra (.extra "x") then some false else none) = false := by
  decide

end Pep508.C13

section
open Pep508.C13
#print axioms edges_inhabited_rel
#print axioms evaluate_extras_exact_rel
#print axioms evaluate_extras_iff_rel
#print axioms edges_inhabited_val
#print axioms evaluate_extras_exact_val
#print axioms evaluate_extras_iff_val
#print axioms evaluate_extras_false_iff_val
#print axioms evaluate_extras_val_needs_sep
#print axioms exV_sep
#print axioms nv_evaluate_extras_iff_val
#print axioms nv_exact_val_active
end
