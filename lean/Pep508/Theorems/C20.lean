/-
C20 — the decision diagram exposed by kind() is ordered, reduced and partitioning.

`Tree.wf` (Pep508/Model/Tree.lean) is the property's predicate, executable: variables strictly
increase along every path (`rootGt`), the edges of a range node are ≥ 2 valid contiguous
ranges that start at -∞, touch exactly, end at +∞ (`partitionFrom`), adjacent ranges lead to
different children, boolean nodes have different children.  This file states that every
operation preserves it (so every marker reachable from TRUE / FALSE / expressions satisfies it),
and that choosing edges by hand is evaluation (definitional in the model: `Tree.eval` *is* the
walk; `wf ⇒ exactly one edge contains the value` is `partitionFrom_spec` + disjointness).
The same predicate is evaluated by the native driver on every dump of an implementation marker.
-/
import Pep508.Proofs.WfAnd
import Pep508.Proofs.WfUnary
import Pep508.Proofs.ExprStr
set_option linter.unusedSectionVars false
namespace Pep508.C20
open Pep508
variable {νr νb α : Type}
variable [LT α] [LE α] [Std.IsLinearOrder α] [Std.LawfulOrderLT α] [DecidableLT α] [DecidableEq α]
variable [LT νr] [LE νr] [Std.IsLinearOrder νr] [Std.LawfulOrderLT νr] [DecidableLT νr] [DecidableEq νr]
variable [LT νb] [LE νb] [Std.IsLinearOrder νb] [Std.LawfulOrderLT νb] [DecidableLT νb] [DecidableEq νb]

theorem wf_true : (Tree.leaf true : Tree νr νb α).wf = true := rfl
theorem wf_false : (Tree.leaf false : Tree νr νb α).wf = true := rfl

theorem wf_and (x y : Tree νr νb α) (hx : x.wf = true) (hy : y.wf = true) : (Tree.and x y).wf = true :=
  Pep508.wf_and x y hx hy

theorem wf_or (x y : Tree νr νb α) (hx : x.wf = true) (hy : y.wf = true) : (Tree.or x y).wf = true :=
  Pep508.wf_or x y hx hy

theorem wf_not (x : Tree νr νb α) (hx : x.wf = true) : x.not.wf = true := Pep508.wf_not x hx

/-- the product of two partitions is never empty: the `unwrap` in `create_node` cannot fire
    on the equal-variable branch of `and` -/
theorem apply_ranges_nonempty (f : Tree νr νb α → Tree νr νb α → Tree νr νb α) (ls rs : EdgeL νr νb α)
    (hl : PartL .unb ls) (hr : PartL .unb rs) : product f ls rs ≠ [] := product_ne_nil f ls rs hl hr

/-- a well-formed diagram has, for every value, an edge containing it (so the hand walk never
    falls through) and the structural predicate implies the semantic one used by C02 -/
theorem wf_covers (v : νr) (es : Edges νr νb α) (h : (Tree.rng v es).wf = true) : Covers es.toList :=
  (Tree.OK_of_wf _ h).2

theorem wf_restrict (f : νb → Option Bool) (t : Tree νr νb α) (h : t.wf = true) :
    (t.restrict f).wf = true := Pep508.wf_restrict f t h

theorem wf_simplify (pv : νr) (lo hi : Bnd α) (t : Tree νr νb α) (h : t.wf = true) :
    (t.simplifyPy pv lo hi).wf = true := Pep508.wf_simplifyPy pv lo hi t h

theorem wf_complexify (pv : νr) (lo hi : Bnd α) (t : Tree νr νb α) (h : t.wf = true) :
    (t.complexifyPy pv lo hi).wf = true := Pep508.wf_complexifyPy pv lo hi t h

/-- the diagram of `v ∈ r` for a normalised range set (what every version / string comparison
    expression becomes) -/
theorem wf_range_atom (v : νr) (r : Ranges α) (h : Ranges.Norm r) :
    (rangeNode v r : Tree νr νb α).wf = true := wf_rangeNode v r h

/-- markers reachable through the API: constants, range atoms, boolean atoms, closed under every
    operation, for any bounds and any restriction -/
inductive Reach (pv : νr) : Tree νr νb α → Prop where
  | tt : Reach pv (.leaf true)
  | ff : Reach pv (.leaf false)
  | range (v : νr) (r : Ranges α) : Ranges.Norm r → Reach pv (rangeNode v r)
  | boolPos (v : νb) : Reach pv (.bool v (.leaf true) (.leaf false))
  | boolNeg (v : νb) : Reach pv (.bool v (.leaf false) (.leaf true))
  | and {x y} : Reach pv x → Reach pv y → Reach pv (Tree.and x y)
  | or {x y} : Reach pv x → Reach pv y → Reach pv (Tree.or x y)
  | not {x} : Reach pv x → Reach pv x.not
  | restrict {x} (f : νb → Option Bool) : Reach pv x → Reach pv (x.restrict f)
  | simplify {x} (lo hi : Bnd α) : Reach pv x → Reach pv (x.simplifyPy pv lo hi)
  | complexify {x} (lo hi : Bnd α) : Reach pv x → Reach pv (x.complexifyPy pv lo hi)

/-- **C20**: every reachable marker is ordered, reduced and partitioning -/
theorem reach_wf (pv : νr) (t : Tree νr νb α) (h : Reach pv t) : t.wf = true := by
  induction h with
  | tt => rfl
  | ff => rfl
  | range v r hn => exact wf_rangeNode v r hn
  | boolPos v => simp [Tree.wf, Tree.rootGt]
  | boolNeg v => simp [Tree.wf, Tree.rootGt]
  | and _ _ ihx ihy => exact Pep508.wf_and _ _ ihx ihy
  | or _ _ ihx ihy => exact Pep508.wf_or _ _ ihx ihy
  | not _ ih => exact Pep508.wf_not _ ih
  | restrict f _ ih => exact Pep508.wf_restrict f _ ih
  | simplify lo hi _ ih => exact Pep508.wf_simplifyPy pv lo hi _ ih
  | complexify lo hi _ ih => exact Pep508.wf_complexifyPy pv lo hi _ ih

/-- non-vacuity: a reachable marker built with every operation, over `Nat` -/
example : Reach (νb := Nat) (α := Nat) 0
    (((Tree.and (rangeNode 0 [⟨.incl 3, .excl 5⟩]) (.bool 1 (.leaf true) (.leaf false))).complexifyPy 0 (.incl 4) .unb).restrict
      (fun _ => some true)) :=
  .restrict _ (.complexify _ _ (.and (.range 0 _ (Ranges.norm_single _ (by decide))) (.boolPos 1)))

end Pep508.C20
