/-
C20 — the decision diagram exposed by kind() is ordered, reduced and partitioning.

`Tree.wf` (Pep508/Model/Tree.lean) is the property's predicate, executable: variables strictly
increase along every path (`rootGt`), the edges of a range node are ≥ 2 valid contiguous
ranges that start at -∞, touch exactly, end at +∞ (`partitionFrom`), adjacent ranges lead to
different children, boolean nodes have different children.  This file states that every
operation preserves it (so every marker reachable from TRUE / FALSE / expressions satisfies it),
and that choosing edges by hand is evaluation (definitional in the model: `Tree.eval` *is* the
walk; `wf ⇒ exactly one edge contains the value` is `partitionFrom_spec` + disjointness).
The same predicate is evaluated by the native driver on every dump of an implementation marker.
-/
import Pep508.Proofs.WfAnd
set_option linter.unusedSectionVars false
namespace Pep508.C20
open Pep508
variable {νr νb α : Type}
variable [LT α] [LE α] [Std.IsLinearOrder α] [Std.LawfulOrderLT α] [DecidableLT α] [DecidableEq α]
variable [LT νr] [LE νr] [Std.IsLinearOrder νr] [Std.LawfulOrderLT νr] [DecidableLT νr] [DecidableEq νr]
variable [LT νb] [LE νb] [Std.IsLinearOrder νb] [Std.LawfulOrderLT νb] [DecidableLT νb] [DecidableEq νb]

theorem wf_true : (Tree.leaf true : Tree νr νb α).wf = true := rfl
theorem wf_false : (Tree.leaf false : Tree νr νb α).wf = true := rfl

theorem wf_and (x y : Tree νr νb α) (hx : x.wf = true) (hy : y.wf = true) : (Tree.and x y).wf = true :=
  Pep508.wf_and x y hx hy

theorem wf_or (x y : Tree νr νb α) (hx : x.wf = true) (hy : y.wf = true) : (Tree.or x y).wf = true :=
  Pep508.wf_or x y hx hy

theorem wf_not (x : Tree νr νb α) (hx : x.wf = true) : x.not.wf = true := Pep508.wf_not x hx

/-- the product of two partitions is never empty: the `unwrap` in `create_node` cannot fire
    on the equal-variable branch of `and` -/
theorem apply_ranges_nonempty (f : Tree νr νb α → Tree νr νb α → Tree νr νb α) (ls rs : EdgeL νr νb α)
    (hl : PartL .unb ls) (hr : PartL .unb rs) : product f ls rs ≠ [] := product_ne_nil f ls rs hl hr

/-- a well-formed diagram has, for every value, an edge containing it (so the hand walk never
    falls through) and the structural predicate implies the semantic one used by C02 -/
theorem wf_covers (v : νr) (es : Edges νr νb α) (h : (Tree.rng v es).wf = true) : Covers es.toList :=
  (Tree.OK_of_wf _ h).2

end Pep508.C20
