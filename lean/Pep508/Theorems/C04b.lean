/-
C04 (second part) — the verdicts are EXACT at the model's own value type.

C04.lean proves soundness over every linear order (`is_disjoint` true ⇒ no environment satisfies both; `is_false()` ⇒
unsatisfiable; `is_true()` ⇒ valid).  The Rust doc comment allows `is_disjoint` false negatives "for complex
expressions"; in the model there are none: `is_disjoint x y` is `(x and y) = FALSE` (C04.is_disjoint_iff_and_false), and
for well-formed diagrams whose bounds are separated values (`AllB SepV`: every diagram built from normalised bounds away
from the two degenerate points of the value order, C03b) `= FALSE` is unsatisfiability.  So at `Val`:

 * `is_disjoint_exact_val`: `is_disjoint x y = true ↔ no environment satisfies both`;
 * `is_disjoint_complete_val`: the direction the doc comment does not promise;
 * `is_disjoint_val_needs_sep`: the separation hypothesis is needed — `python_full_version < '0'` overlaps nothing
   yet is not reported disjoint from TRUE.
-/
import Pep508.Theorems.C04
import Pep508.Theorems.C03b
import Pep508.Theorems.C20
import Pep508.Theorems.C12c
namespace Pep508.C04
open Pep508

/-- at `Val`, for well-formed operands with separated bounds: `is_disjoint` answers true exactly when no environment
    satisfies both operands -/
theorem is_disjoint_exact_val (x y : MTree) (hx : x.wf = true) (hy : y.wf = true)
    (bx : x.AllB SepV) (bxy : y.AllB SepV) :
    Tree.isDisjoint x y = true ↔ ∀ ρ : Env VarR VarB Val, ¬ (x.eval ρ = true ∧ y.eval ρ = true) := by
  constructor
  · intro h ρ
    exact is_disjoint_sound x y hx hy h ρ
  · intro h
    rw [is_disjoint_iff_and_false]
    have hwf : (Tree.and x y).wf = true := C20.wf_and x y hx hy
    have hb : (Tree.and x y).AllB SepV := C03.bounds_and SepV x y bx bxy
    rw [C03.is_false_iff_val _ hwf hb]
    intro ρ
    rw [C02.eval_and_of_wf ρ x y hx hy]
    have := h ρ
    cases h1 : x.eval ρ <;> cases h2 : y.eval ρ <;> simp_all

/-- completeness alone: semantically disjoint operands ARE reported disjoint -/
theorem is_disjoint_complete_val (x y : MTree) (hx : x.wf = true) (hy : y.wf = true)
    (bx : x.AllB SepV) (bxy : y.AllB SepV)
    (h : ∀ ρ : Env VarR VarB Val, ¬ (x.eval ρ = true ∧ y.eval ρ = true)) : Tree.isDisjoint x y = true :=
  (is_disjoint_exact_val x y hx hy bx bxy).2 h

/-- the separation hypothesis cannot be dropped: `python_full_version < '0'` (well-formed, satisfied by no environment:
    C03.lt_zero_constantly_false) overlaps nothing, yet is not reported disjoint from TRUE -/
theorem is_disjoint_val_needs_sep :
    C03.ltZero.wf = true ∧ (∀ ρ : Env VarR VarB Val, ¬ (C03.ltZero.eval ρ = true ∧ (Tree.leaf true : MTree).eval ρ = true)) ∧
    Tree.isDisjoint C03.ltZero (.leaf true) = false := by
  refine ⟨by decide, fun ρ h => ?_, by decide⟩
  have := C03.lt_zero_constantly_false
  simp_all

/-! ### non-vacuity: the hypotheses hold on concrete diagrams, with both answers -/

/-- `os_name < 'a'`-style diagram against its negation: disjoint, and the theorem's hypotheses hold -/
theorem nv_exact_disjoint :
    Tree.isDisjoint C12.exS C12.exS.not = true ∧
    (∀ ρ : Env VarR VarB Val, ¬ (C12.exS.eval ρ = true ∧ C12.exS.not.eval ρ = true)) := by
  have h := is_disjoint_exact_val C12.exS C12.exS.not C12.exS_wf (C20.wf_not _ C12.exS_wf) C12.exS_sep
    (C03.bounds_not SepV _ C12.exS_sep)
  have hd : Tree.isDisjoint C12.exS C12.exS.not = true := by decide
  exact ⟨hd, h.1 hd⟩

/-- two different variables: not disjoint, so (by exactness) some environment satisfies both -/
theorem nv_exact_overlap :
    Tree.isDisjoint C12.exGe38 C12.exS = false ∧
    ∃ ρ : Env VarR VarB Val, C12.exGe38.eval ρ = true ∧ C12.exS.eval ρ = true := by
  have h := is_disjoint_exact_val C12.exGe38 C12.exS C12.exGe38_wf C12.exS_wf C12.exGe38_sep C12.exS_sep
  have hd : Tree.isDisjoint C12.exGe38 C12.exS = false := by decide
  refine ⟨hd, ?_⟩
  apply Classical.byContradiction
  intro hne
  have : ∀ ρ : Env VarR VarB Val, ¬ (C12.exGe38.eval ρ = true ∧ C12.exS.eval ρ = true) := fun ρ hρ => hne ⟨ρ, hρ⟩
  have := h.2 this
  rw [hd] at this
  cases this

end Pep508.C04
