/-
C07 — every PEP 508 requirement is accepted and decomposed correctly (proved parts).

Proved for all inputs: the name scanner accepts exactly a valid name followed by a delimiter
and returns its normal form (`name_accepted`); the URL part is decomposed by the declarative
URL-end rule (C18); the parser is total with well-placed errors (C06); dropped marker operands
do not disturb and/or chains (C17).  The statement "parse (render d layout) = components d"
for whole derivations is tied to the code by the derivation × layout oracle and the
differential requirement-parser model, not by a Lean theorem.
-/
import Pep508.Proofs.ReqAccept
namespace Pep508.C07
open Pep508

/-- a name of allowed characters, alphanumeric at both ends, followed by nothing or by a
    non-name character, is accepted wherever it starts, the cursor ends right after it, and the
    stored name is the declarative normal form (C09's `normSpec`) -/
theorem name_accepted (env : ProcEnv) (pre name rest : List Char)
    (hne : name ≠ [])
    (hfirst : ∀ ch, name.head? = some ch → isAsciiAlnum ch = true)
    (hall : ∀ ch ∈ name, isNameChar ch = true)
    (hlast : ∀ ch, name.getLast? = some ch → isAsciiAlnum ch = true)
    (hrest : ∀ ch, rest.head? = some ch → isNameChar ch = false) :
    parseName env ⟨pre ++ name ++ rest, name ++ rest, strLen pre⟩ =
      .ok (Names.normSpec (name.map Char.toNat),
        ⟨pre ++ name ++ rest, rest, strLen pre + strLen name⟩) :=
  parseName_accept env pre name rest hne hfirst hall hlast hrest

/-- leading whitespace does not change the diagnosis (after F19; before it `a/b` was diagnosed as an
    unnamed requirement and ` a/b` as a syntax error — this file proved that difference) -/
theorem leading_ws_same_diagnosis (env : ProcEnv) (x : Ext) :
    (parseRequirement env x ['a', '/', 'b']).fin = .err ⟨.unsupported, 0, 3⟩ ∧
    (parseRequirement env x [' ', 'a', '/', 'b']).fin = .err ⟨.unsupported, 0, 4⟩ :=
  leading_ws_same_outcome env x

end Pep508.C07
