/-
C19 / C06 (extension feature): `strip_host`, the helper that turns the text after `file:` into a path.
It is total (the model has no slicing site: `stripPrefix?` walks the characters), its result is always a
suffix of its argument, and it removes exactly the `//localhost` host in front of a `/`, or else the `//`.
-/
import Pep508.Model.Url

namespace Pep508.C19

theorem stripPrefix?_some {s p r : List Char} (h : stripPrefix? s p = some r) : s = p ++ r := by
  induction p generalizing s with
  | nil => simp [stripPrefix?] at h; simp [h]
  | cons d p ih =>
    cases s with
    | nil => simp [stripPrefix?] at h
    | cons c s =>
      simp only [stripPrefix?] at h
      split at h
      · rename_i hcd
        have : c = d := by simpa using hcd
        subst this
        simp [ih h]
      · cases h

theorem stripPrefix?_append (p r : List Char) : stripPrefix? (p ++ r) p = some r := by
  induction p with
  | nil => simp [stripPrefix?]
  | cons d p ih => simp [stripPrefix?, ih]

/-- the result is a suffix of the argument: whatever the bytes are, nothing is cut inside a scalar -/
theorem strip_host_suffix (s : List Char) : ∃ p, s = p ++ stripHost s := by
  unfold stripHost
  split
  · rename_i rest h
    exact ⟨_, stripPrefix?_some h⟩
  · split
    · rename_i rest h
      exact ⟨_, stripPrefix?_some h⟩
    · exact ⟨[], rfl⟩

/-- `file://localhost/p` is the path `/p` -/
theorem strip_host_localhost (p : List Char) : stripHost ("//localhost/".toList ++ p) = '/' :: p := by
  have h : stripPrefix? ("//localhost/".toList ++ p) "//localhost".toList = some ('/' :: p) := by
    have := stripPrefix?_append "//localhost".toList ('/' :: p)
    simpa using this
  unfold stripHost
  rw [h]
  rfl

/-- `file:///p` is the path `/p` -/
theorem strip_host_empty_host (p : List Char) : stripHost ("///".toList ++ p) = '/' :: p := by
  simp [stripHost, stripPrefix?]

/-- a host that merely starts with `localhost` is kept: only the `//` goes -/
theorem strip_host_other_host (h : List Char) (hne : ∀ r, stripPrefix? ('/' :: '/' :: h) "//localhost".toList ≠ some ('/' :: r)) :
    stripHost ('/' :: '/' :: h) = h := by
  unfold stripHost
  split
  · rename_i rest hh
    exact absurd hh (hne rest)
  · simp [stripPrefix?]

/-- no `//` in front: the text is the path as it stands (`file:relative/p`) -/
theorem strip_host_no_host (s : List Char) (h : stripPrefix? s "//".toList = none) : stripHost s = s := by
  unfold stripHost
  split
  · rename_i rest hh
    have := stripPrefix?_some hh
    have h2 : stripPrefix? s "//".toList = some ("localhost".toList ++ '/' :: rest) := by
      rw [this]
      have := stripPrefix?_append "//".toList ("localhost".toList ++ '/' :: rest)
      simpa using this
    rw [h] at h2
    cases h2
  · rw [h]

-- non-vacuity
example : stripHost "//localhostx/y".toList = "localhostx/y".toList := by decide
example : stripHost "//localhost".toList = "localhost".toList := by decide
example : stripHost "//abcdefghé/p".toList = "abcdefghé/p".toList := by decide
example : stripHost "relative/p".toList = "relative/p".toList := by decide

end Pep508.C19
