/-
Non-vacuity witnesses, group A: the decision-diagram algebra
(C02, C03, C04, C20, C11, C12, C12b, C13, C13b).

Every theorem of those files that has hypotheses is APPLIED here to a concrete, non-trivial
instance (two-level diagrams with a range node and a boolean node, values in `Nat` or `Rat`), so
that Lean checks that all its hypotheses — explicit ones and the type-class assumptions
`[DenseUnbounded α] [Inhabited α]` and the order block — can be discharged together.

Second part (`section AtVal`): the class `DenseUnbounded` and the inhabitation hypothesis `hinh`
have NO instance at the value type the model actually uses (`Val`): `Val.ver []` is the least
element and e.g. nothing lies between `ver [1]` and `ver [1, 0]`, nor between `str ""` and
`str "\x00"`.  The theorems that assume them are therefore true statements about `Rat`-like
orders but can NOT be instantiated at `MTree = Tree VarR VarB Val`; and their conclusions are in
fact FALSE there (`is_true_iff_fails_at_Val`, `evaluate_extras_exact_fails_at_Val`, …).
-/
import Pep508.Theorems.C02
import Pep508.Theorems.C03
import Pep508.Theorems.C04
import Pep508.Theorems.C20
import Pep508.Theorems.C11
import Pep508.Theorems.C12
import Pep508.Theorems.C12b
import Pep508.Theorems.C13
import Pep508.Theorems.C13b
import Pep508.Proofs.ValOrder
set_option linter.unusedSectionVars false
namespace Pep508.NonVacuityA
open Pep508

/-! ## instances used -/

/-- `v0 < 5` over `Nat` -/
abbrev A : Tree Nat Nat Nat := C02.exA
/-- `v0 >= 3 and b1` over `Nat` -/
abbrev B : Tree Nat Nat Nat := C02.exB
/-- `v0 >= 3 and b1` over `Rat` -/
abbrev Bq : Tree Nat Nat Rat := C12.exBq
/-- `b1` over `Rat` -/
abbrev Oq : Tree Nat Nat Rat := C12.exOnlyB
/-- `v0 < 5` over `Rat` -/
def Aq : Tree Nat Nat Rat :=
  .rng 0 (.cons ⟨.unb, .excl 5⟩ (.leaf true) (.cons ⟨.incl 5, .unb⟩ (.leaf false) .nil))

/-- an environment over `Nat`: `v0 = 4`, every boolean true -/
def ρn : Env Nat Nat Nat := ⟨fun _ => 4, fun _ => true⟩
/-- an environment over `Rat`: `v0 = 1`, every boolean true -/
def ρq : Env Nat Nat Rat := ⟨fun _ => 1, fun _ => true⟩
/-- `v0 = 10` -/
def ρq' : Env Nat Nat Rat := ⟨fun _ => 10, fun _ => true⟩

theorem A_wf : A.wf = true := by decide
theorem B_wf : B.wf = true := by decide
theorem Bq_wf : Bq.wf = true := by decide
theorem Oq_wf : Oq.wf = true := by decide
theorem Aq_wf : Aq.wf = true := by decide
/-- the semantic predicate `Tree.OK`, proved DIRECTLY on the instance (not through `OK_of_wf`) -/
theorem A_OK : A.OK := by
  refine ⟨⟨by decide, trivial, by decide, trivial, trivial⟩, ?_⟩
  intro x
  by_cases h : x < 5
  · exact ⟨_, List.mem_cons_self, by simp [Ivl.mem, Bnd.loOk, Bnd.hiOk, h]⟩
  · exact ⟨(⟨.incl 5, .unb⟩, .leaf false), by simp [Edges.toList],
      by simp [Ivl.mem, Bnd.loOk, Bnd.hiOk, h]⟩
theorem B_OK : B.OK := Tree.OK_of_wf B B_wf

/-! ## C02 -/

theorem nv_eval_and : (Tree.and A B).eval ρn = (A.eval ρn && B.eval ρn) :=
  C02.eval_and ρn A B A_OK B_OK
/-- … and the instance is not degenerate: both sides are `true` here, `false` elsewhere -/
example : (Tree.and A B).eval ρn = true ∧ (Tree.and A B).eval ⟨fun _ => 7, fun _ => true⟩ = false := by
  decide
theorem nv_OK_and : (Tree.and A B).OK := C02.OK_and A B A_OK B_OK
theorem nv_eval_not : B.not.eval ρn = !B.eval ρn := C02.eval_not ρn B B_OK
theorem nv_OK_not : B.not.OK := C02.OK_not B B_OK
theorem nv_eval_or : (Tree.or A B).eval ρn = (A.eval ρn || B.eval ρn) :=
  C02.eval_or ρn A B A_OK B_OK
theorem nv_OK_or : (Tree.or A B).OK := C02.OK_or A B A_OK B_OK
-- unconditional: and_true_left, and_true_right, and_false_left, and_false_right, and_self,
--                or_false_left, or_true_left
theorem nv_and_not_self : Tree.and B B.not = .leaf false := C02.and_not_self B B_wf

/-- two operands, the skeleton `(x0 and not x1) or x1` -/
def leaves2 : Fin 2 → Tree Nat Nat Nat := fun i => if i = 0 then A else B
theorem leaves2_OK : ∀ i, (leaves2 i).OK := by
  intro i
  by_cases h : i = 0
  · simp only [leaves2, h, if_true]; exact A_OK
  · simp only [leaves2, h, if_false]; exact B_OK
def skel : C02.BExp 2 := .or (.and (.var 0) (.not (.var 1))) (.var 1)
theorem nv_eval_build : (skel.build leaves2).OK ∧
    (skel.build leaves2).eval ρn = skel.sem (fun i => (leaves2 i).eval ρn) :=
  C02.eval_build ρn leaves2 leaves2_OK skel
theorem nv_eval_and_of_wf : (Tree.and A B).eval ρn = (A.eval ρn && B.eval ρn) :=
  C02.eval_and_of_wf ρn A B A_wf B_wf

/-! ## C03 (value type `Rat`: the only `DenseUnbounded` instance in the project) -/

theorem nv_equal_iff_same_function : Aq = Bq ↔ ∀ ρ : Env Nat Nat Rat, Aq.eval ρ = Bq.eval ρ :=
  C03.equal_iff_same_function Aq Bq Aq_wf Bq_wf
theorem nv_is_true_iff : Tree.or Aq Bq = .leaf true ↔ ∀ ρ : Env Nat Nat Rat, (Tree.or Aq Bq).eval ρ = true :=
  C03.is_true_iff (Tree.or Aq Bq) (by decide)
theorem nv_is_false_iff : Tree.and Aq Bq = .leaf false ↔ ∀ ρ : Env Nat Nat Rat, (Tree.and Aq Bq).eval ρ = false :=
  C03.is_false_iff (Tree.and Aq Bq) (by decide)
theorem nv_and_comm_of_wf : Tree.and Aq Bq = Tree.and Bq Aq :=
  C03.and_comm_of_wf Aq Bq Aq_wf Bq_wf (by decide) (by decide)
/-- the two sides are a genuine three-edge diagram (not a terminal) -/
example : Tree.and Aq Bq =
    .rng 0 (.cons ⟨.unb, .excl 3⟩ (.leaf false)
      (.cons ⟨.incl 3, .excl 5⟩ (.bool 1 (.leaf true) (.leaf false))
        (.cons ⟨.incl 5, .unb⟩ (.leaf false) .nil))) := by decide

/-! ## C04 -/

theorem nv_is_disjoint_sound : ¬ (A.eval ρn = true ∧ A.not.eval ρn = true) :=
  C04.is_disjoint_sound A A.not A_wf (by decide) (by decide) ρn
/-- a less obvious disjoint pair: `v0 < 5` and `v0 >= 7 and b1` -/
def B7 : Tree Nat Nat Nat :=
  .rng 0 (.cons ⟨.unb, .excl 7⟩ (.leaf false)
    (.cons ⟨.incl 7, .unb⟩ (.bool 1 (.leaf true) (.leaf false)) .nil))
theorem nv_is_disjoint_sound' : ¬ (A.eval ρn = true ∧ B7.eval ρn = true) :=
  C04.is_disjoint_sound A B7 A_wf (by decide) (by decide) ρn
-- unconditional: is_disjoint_symm, is_disjoint_iff_and_false
/-- `h : x = .leaf false` is satisfiable only by the FALSE terminal (that is what the theorem is
    about); here the terminal arises as a computed conjunction -/
theorem nv_is_false_sound : (Tree.and A B7).eval ρn = false :=
  C04.is_false_sound (Tree.and A B7) (by decide) ρn
theorem nv_is_true_sound : (Tree.or A A.not).eval ρn = true :=
  C04.is_true_sound (Tree.or A A.not) (by decide) ρn
theorem nv_and_false_sound : ¬ (A.eval ρn = true ∧ B7.eval ρn = true) :=
  C04.and_false_sound A B7 A_wf (by decide) (by decide) ρn

/-! ## C20 -/

-- unconditional: wf_true, wf_false
theorem nv_wf_and : (Tree.and A B).wf = true := C20.wf_and A B A_wf B_wf
theorem nv_wf_or : (Tree.or A B).wf = true := C20.wf_or A B A_wf B_wf
theorem nv_wf_not : B.not.wf = true := C20.wf_not B B_wf

/-- the edge lists of `A` and `B` -/
def lsA : EdgeL Nat Nat Nat := [(⟨.unb, .excl 5⟩, .leaf true), (⟨.incl 5, .unb⟩, .leaf false)]
def lsB : EdgeL Nat Nat Nat :=
  [(⟨.unb, .excl 3⟩, .leaf false), (⟨.incl 3, .unb⟩, .bool 1 (.leaf true) (.leaf false))]
theorem lsA_part : PartL .unb lsA := ⟨rfl, by decide, rfl, by decide, rfl⟩
theorem lsB_part : PartL .unb lsB := ⟨rfl, by decide, rfl, by decide, rfl⟩
theorem nv_apply_ranges_nonempty : product (andF 10) lsA lsB ≠ [] :=
  C20.apply_ranges_nonempty (andF 10) lsA lsB lsA_part lsB_part
example : (product (andF 10) lsA lsB).length = 3 := by decide

theorem nv_wf_covers :
    Covers (Edges.cons ⟨.unb, .excl 3⟩ (.leaf false)
      (.cons ⟨.incl 3, .unb⟩ (Tree.bool 1 (.leaf true) (.leaf false) : Tree Nat Nat Nat) .nil)).toList :=
  C20.wf_covers 0 _ B_wf
theorem nv_wf_restrict : (B.restrict (fun v => if v = 1 then some true else none)).wf = true :=
  C20.wf_restrict _ B B_wf
example : B.restrict (fun v => if v = 1 then some true else none) =
    .rng 0 (.cons ⟨.unb, .excl 3⟩ (.leaf false) (.cons ⟨.incl 3, .unb⟩ (.leaf true) .nil)) := by decide
theorem nv_wf_simplify : (B.simplifyPy 0 (.incl 2) (.excl 9)).wf = true :=
  C20.wf_simplify 0 (.incl 2) (.excl 9) B B_wf
theorem nv_wf_complexify : (B.complexifyPy 0 (.incl 4) (.excl 9)).wf = true :=
  C20.wf_complexify 0 (.incl 4) (.excl 9) B B_wf

/-- a two-segment normalised range set `[3,5) ∪ [7,+∞)` -/
def r2 : Ranges Nat := [⟨.incl 3, .excl 5⟩, ⟨.incl 7, .unb⟩]
theorem r2_norm : Ranges.Norm r2 :=
  (Ranges.norm_cons_cons _ _ _).mpr ⟨by decide, by decide, Ranges.norm_single _ (by decide)⟩
theorem nv_wf_range_atom : (rangeNode 0 r2 : Tree Nat Nat Nat).wf = true :=
  C20.wf_range_atom 0 r2 r2_norm
example : (rangeNode 0 r2 : Tree Nat Nat Nat) =
    .rng 0 (.cons ⟨.unb, .excl 3⟩ (.leaf false) (.cons ⟨.incl 3, .excl 5⟩ (.leaf true)
      (.cons ⟨.incl 5, .excl 7⟩ (.leaf false) (.cons ⟨.incl 7, .unb⟩ (.leaf true) .nil)))) := by decide

/-- `Reach` is inhabited by a marker that uses every constructor except the terminals -/
def reachT : Tree Nat Nat Nat :=
  ((Tree.or (Tree.and (rangeNode 0 r2) (.bool 1 (.leaf true) (.leaf false)))
      (Tree.not (.bool 2 (.leaf false) (.leaf true)))).complexifyPy 0 (.incl 4) .unb).simplifyPy 0 (.incl 1) .unb
    |>.restrict (fun v => if v = 2 then some false else none)
theorem reachT_reach : C20.Reach (νb := Nat) (α := Nat) 0 reachT :=
  .restrict _ (.simplify _ _ (.complexify _ _
    (.or (.and (.range 0 r2 r2_norm) (.boolPos 1)) (.not (.boolNeg 2)))))
theorem nv_reach_wf : reachT.wf = true := C20.reach_wf 0 reachT reachT_reach

/-! ## C11 -/

def f1 : Nat → Option Bool := fun v => if v = 1 then some true else none
theorem nv_restrict_eval : (B.restrict f1).eval ρn = B.eval (ρn.override f1) :=
  C11.restrict_eval f1 B B_wf ρn
theorem nv_restrict_independent : (B.restrict f1).mentionsB 1 = false :=
  C11.restrict_independent f1 B 1 (by decide)
/-- … while the unrestricted marker does mention `b1` -/
example : B.mentionsB 1 = true := by decide
/-- `A ∧ b2`-free marker `B`, two environments that differ exactly at `b2` -/
theorem nv_not_mentioned_irrelevant :
    B.eval ρn = B.eval ⟨fun _ => 4, fun v => if v = 2 then false else true⟩ :=
  C11.not_mentioned_irrelevant B 2 (by decide) ρn ⟨fun _ => 4, fun v => if v = 2 then false else true⟩
    rfl (by intro v hv; simp [ρn, hv])
theorem nv_with_extra_marker_eval :
    (Tree.and A (.bool 7 (.leaf true) (.leaf false))).eval ρn = (A.eval ρn && ρn.bv 7) :=
  C11.with_extra_marker_eval A A_OK 7 ρn
-- unconditional (and stated at `Val`): extra_expr_eval

/-! ## C12 -/

-- unconditional: eval_pyRangeMarker, wf_pyRangeMarker
theorem nv_complexify_eval :
    (B.complexifyPy 0 (.incl 4) (.excl 9)).eval ρn =
      (B.eval ρn && (Ivl.mk (.incl 4) (.excl 9)).mem (ρn.rv 0)) :=
  C12.complexify_eval 0 (.incl 4) (.excl 9) B B_wf ρn
theorem nv_simplify_eval_inside : (B.simplifyPy 0 (.incl 4) (.excl 9)).eval ρn = B.eval ρn :=
  C12.simplify_eval_inside 0 (.incl 4) (.excl 9) B B_wf ρn (by decide)
theorem nv_complexify_wf : (B.complexifyPy 0 (.incl 4) (.excl 9)).wf = true :=
  C12.complexify_wf 0 (.incl 4) (.excl 9) B B_wf
theorem nv_simplify_wf : (B.simplifyPy 0 (.incl 4) (.excl 9)).wf = true :=
  C12.simplify_wf 0 (.incl 4) (.excl 9) B B_wf
theorem nv_complexify_eq_and :
    Bq.complexifyPy 0 (.incl 4) (.excl 9) = Tree.and Bq (C12.pyRangeMarker 0 (.incl 4) (.excl 9)) :=
  C12.complexify_eq_and 0 (.incl 4) (.excl 9) Bq Bq_wf
theorem nv_complexify_simplify :
    (Bq.simplifyPy 0 (.incl 4) (.excl 9)).complexifyPy 0 (.incl 4) (.excl 9) =
      Bq.complexifyPy 0 (.incl 4) (.excl 9) :=
  C12.complexify_simplify 0 (.incl 4) (.excl 9) Bq Bq_wf
/-- `hag` is discharged by `C12.exBq_agree`: `v0 >= 3 and b1` and `b1` agree on `[4, +∞)` -/
theorem nv_complexify_congr :
    Bq.complexifyPy 0 (.incl 4) .unb = Oq.complexifyPy 0 (.incl 4) .unb :=
  C12.complexify_congr 0 (.incl 4) .unb Bq Oq Bq_wf Oq_wf C12.exBq_agree
example : Bq.complexifyPy 0 (.incl 4) .unb ≠ Bq ∧ Bq.complexifyPy 0 (.incl 4) .unb ≠ Oq := by decide

/-! ## C12b -/

theorem nv_nonempty_iff_valid :
    (∃ x, (Ivl.mk (Bnd.excl (3 : Rat)) (.excl 4)).mem x = true) ↔
      (Ivl.mk (Bnd.excl (3 : Rat)) (.excl 4)).valid = true :=
  C12.nonempty_iff_valid _ _
/-- `ρq` has `v0 = 1`, below `R = [4, 9)` -/
theorem nv_simplify_eval_below :
    ∃ a, (Ivl.mk (Bnd.incl (4 : Rat)) (.excl 9)).mem a = true ∧
      ∀ x, (Ivl.mk (Bnd.incl (4 : Rat)) (.excl 9)).mem x = true → ¬ a < x →
        (Bq.simplifyPy 0 (.incl 4) (.excl 9)).eval ρq = Bq.eval (ρq.setR 0 x) :=
  C12.simplify_eval_below 0 (.incl 4) (.excl 9) (by decide) Bq Bq_wf ρq (by decide)
/-- `ρq'` has `v0 = 10`, above `R = [4, 9)` -/
theorem nv_simplify_eval_above :
    ∃ a, (Ivl.mk (Bnd.incl (4 : Rat)) (.excl 9)).mem a = true ∧
      ∀ x, (Ivl.mk (Bnd.incl (4 : Rat)) (.excl 9)).mem x = true → ¬ x < a →
        (Bq.simplifyPy 0 (.incl 4) (.excl 9)).eval ρq' = Bq.eval (ρq'.setR 0 x) :=
  C12.simplify_eval_above 0 (.incl 4) (.excl 9) (by decide) Bq Bq_wf ρq' (by decide)
theorem nv_simplify_congr : Bq.simplifyPy 0 (.incl 4) .unb = Oq.simplifyPy 0 (.incl 4) .unb :=
  C12.simplify_congr 0 (.incl 4) .unb (by decide) Bq Oq Bq_wf Oq_wf C12.exBq_agree
theorem nv_simplify_congr_of_mem : Bq.simplifyPy 0 (.incl 4) .unb = Oq.simplifyPy 0 (.incl 4) .unb :=
  C12.simplify_congr_of_mem 0 (.incl 4) .unb ⟨4, by decide⟩ Bq Oq Bq_wf Oq_wf C12.exBq_agree
/-- hypothesis `h` (equal simplifications of two DIFFERENT markers) holds by computation -/
theorem nv_agree_of_simplify_eq : Bq.eval ρq' = Oq.eval ρq' :=
  C12.agree_of_simplify_eq 0 (.incl 4) .unb Bq Oq Bq_wf Oq_wf (by decide) ρq' (by decide)
theorem nv_simplify_eq_iff :
    Bq.simplifyPy 0 (.incl 4) .unb = Oq.simplifyPy 0 (.incl 4) .unb ↔
      ∀ ρ : Env Nat Nat Rat, (Ivl.mk (.incl 4) .unb).mem (ρ.rv 0) = true → Bq.eval ρ = Oq.eval ρ :=
  C12.simplify_eq_iff 0 (.incl 4) .unb (by decide) Bq Oq Bq_wf Oq_wf
theorem nv_simplify_complexify :
    (Bq.complexifyPy 0 (.incl 4) (.excl 9)).simplifyPy 0 (.incl 4) (.excl 9) =
      Bq.simplifyPy 0 (.incl 4) (.excl 9) :=
  C12.simplify_complexify 0 (.incl 4) (.excl 9) (by decide) Bq Bq_wf
theorem nv_simplify_idem :
    (Bq.simplifyPy 0 (.incl 2) (.excl 9)).simplifyPy 0 (.incl 2) (.excl 9) =
      Bq.simplifyPy 0 (.incl 2) (.excl 9) :=
  C12.simplify_idem 0 (.incl 2) (.excl 9) (by decide) Bq Bq_wf
theorem nv_simplify_idem_all :
    (Bq.simplifyPy 0 (.incl 7) (.excl 2)).simplifyPy 0 (.incl 7) (.excl 2) =
      Bq.simplifyPy 0 (.incl 7) (.excl 2) :=
  C12.simplify_idem_all 0 (.incl 7) (.excl 2) Bq Bq_wf

/-- the inverted range `[7, 2)` -/
theorem inv_72 : (Ivl.mk (Bnd.incl (7 : Rat)) (.excl 2)).valid = false := by decide
theorem nv_simplify_empty_pv_node :
    (Tree.rng 0 (.cons ⟨.unb, .excl 3⟩ (.leaf false)
      (.cons ⟨.incl 3, .unb⟩ (.bool 1 (.leaf true) (.leaf false)) .nil)) : Tree Nat Nat Rat).simplifyPy 0
        (.incl 7) (.excl 2) = .leaf false :=
  C12.simplify_empty_pv_node 0 (.incl 7) (.excl 2) inv_72 _
/-- `Bq` does not mention range variable 1 (it is a node of variable 0 over a boolean) -/
theorem nv_simplify_not_mentions : Bq.simplifyPy 1 (.incl 4) (.excl 9) = Bq :=
  C12.simplify_not_mentions 1 (.incl 4) (.excl 9) Bq Bq_wf (by decide)
theorem nv_simplify_empty_not_mentions : (Bq.simplifyPy 0 (.incl 7) (.excl 2)).mentionsR 0 = false :=
  C12.simplify_empty_not_mentions 0 (.incl 7) (.excl 2) inv_72 Bq
theorem nv_simplify_idem_empty :
    (C12.exD.simplifyPy 1 (.incl 7) (.excl 2)).simplifyPy 1 (.incl 7) (.excl 2) =
      C12.exD.simplifyPy 1 (.incl 7) (.excl 2) :=
  C12.simplify_idem_empty 1 (.incl 7) (.excl 2) inv_72 C12.exD (by decide)

/-- `agree_on_empty` is vacuous BY DESIGN: its content is exactly that `hv` and `hin` exclude each
    other ("inside an empty range anything holds"); it is only ever used to discharge the `hag`
    premise of other statements.  Machine-checked: the two hypotheses are jointly unsatisfiable,
    over every linear order. -/
theorem vacuous_agree_on_empty {α : Type} [LT α] [LE α] [Std.IsLinearOrder α] [Std.LawfulOrderLT α]
    [DecidableLT α] [DecidableEq α] :
    ¬ ∃ (lo hi : Bnd α) (x : α), (Ivl.mk lo hi).valid = false ∧ (Ivl.mk lo hi).mem x = true := by
  rintro ⟨lo, hi, x, hv, hin⟩
  rw [Ivl.mem_of_not_valid _ _ (by simp [hv])] at hin
  cases hin
/-- … its use as a function (producing the `hag` premise) is witnessed in C12b; again here -/
example : ∀ ρ : Env Nat Nat Rat, (Ivl.mk (.incl 7) (.excl 2)).mem (ρ.rv 0) = true →
    Bq.eval ρ = Oq.eval ρ := fun ρ => C12.agree_on_empty 0 _ _ inv_72 Bq Oq ρ

theorem nv_simplify_congr_empty_false :
    ∃ m₁ m₂ : Tree Nat Nat Rat, m₁.wf = true ∧ m₂.wf = true ∧
      (∀ ρ : Env Nat Nat Rat, (Ivl.mk (.incl 7) (.excl 2)).mem (ρ.rv 0) = true → m₁.eval ρ = m₂.eval ρ) ∧
      m₁.simplifyPy 0 (.incl 7) (.excl 2) ≠ m₂.simplifyPy 0 (.incl 7) (.excl 2) :=
  C12.simplify_congr_empty_false 0 (.incl 7) (.excl 2) inv_72
/-- two different markers without `python_full_version` (= variable 0 here) -/
def Oq2 : Tree Nat Nat Rat :=
  .rng 1 (.cons ⟨.unb, .excl 5⟩ (.leaf true) (.cons ⟨.incl 5, .unb⟩ (.bool 1 (.leaf true) (.leaf false)) .nil))
theorem nv_simplify_congr_empty_partial :
    Oq.simplifyPy 0 (.incl 7) (.excl 2) = Oq2.simplifyPy 0 (.incl 7) (.excl 2) ↔ Oq = Oq2 :=
  C12.simplify_congr_empty_partial 0 (.incl 7) (.excl 2) Oq Oq2 Oq_wf (by decide) (by decide) (by decide)
theorem nv_simplify_complexify_empty_false :
    ((Tree.leaf true : Tree Nat Nat Rat).complexifyPy 0 (.incl 7) (.excl 2)).simplifyPy 0 (.incl 7) (.excl 2)
        = .leaf false ∧
      (Tree.leaf true : Tree Nat Nat Rat).simplifyPy 0 (.incl 7) (.excl 2) = .leaf true :=
  C12.simplify_complexify_empty_false 0 (.incl 7) (.excl 2) inv_72
-- unconditional (closed statements): exBq_agree, exD_agree

/-! ## C13 -/

def exNone : Nat → Option Bool := fun _ => none
def ex1t : Nat → Option Bool := fun v => if v = 1 then some true else none
def ex1f : Nat → Option Bool := fun v => if v = 1 then some false else none

theorem nv_evaluate_extras_sound : B.evalExtras ex1t = true :=
  C13.evaluate_extras_sound ex1t B
    ⟨ρn, by intro v b h; by_cases hv : v = 1 <;> simp [ex1t, hv] at h; subst h; rfl, by decide⟩
/-- `ρ` compatible with "`b1` inactive" -/
def ρf : Env Nat Nat Nat := ⟨fun _ => 4, fun v => if v = 1 then false else true⟩
theorem nv_evaluate_extras_false : B.eval ρf = false :=
  C13.evaluate_extras_false ex1f B (by decide) ρf
    (by intro v b h; by_cases hv : v = 1 <;> simp [ex1f, hv] at h; subst h hv; rfl)

/-! ## C13b -/

/-- the inhabitation hypothesis `hinh`, at `Rat` -/
theorem hinhQ : ∀ iv : Ivl Rat, iv.valid = true → ∃ x, iv.mem x = true := C13.valid_inhabited
def exq1t : Nat → Option Bool := ex1t

theorem nv_evaluate_extras_exact :
    ∃ ρ : Env Nat Nat Rat, (∀ v b, ex1t v = some b → ρ.bv v = b) ∧ Bq.eval ρ = true :=
  C13.evaluate_extras_exact hinhQ ex1t Bq Bq_wf (by decide)
theorem nv_evaluate_extras_exact_dense :
    ∃ ρ : Env Nat Nat Rat, (∀ v b, ex1t v = some b → ρ.bv v = b) ∧ Bq.eval ρ = true :=
  C13.evaluate_extras_exact_dense ex1t Bq Bq_wf (by decide)
theorem nv_evaluate_extras_iff : Bq.evalExtras ex1f = true ↔
    ∃ ρ : Env Nat Nat Rat, (∀ v b, ex1f v = some b → ρ.bv v = b) ∧ Bq.eval ρ = true :=
  C13.evaluate_extras_iff hinhQ ex1f Bq Bq_wf
theorem nv_evaluate_extras_iff_dense : Bq.evalExtras ex1f = true ↔
    ∃ ρ : Env Nat Nat Rat, (∀ v b, ex1f v = some b → ρ.bv v = b) ∧ Bq.eval ρ = true :=
  C13.evaluate_extras_iff_dense ex1f Bq Bq_wf
theorem nv_evaluate_extras_false_iff : Bq.evalExtras ex1f = false ↔
    ∀ ρ : Env Nat Nat Rat, (∀ v b, ex1f v = some b → ρ.bv v = b) → Bq.eval ρ = false :=
  C13.evaluate_extras_false_iff hinhQ ex1f Bq Bq_wf
/-- both directions of the iff are exercised: the answers differ for `ex1t` and `ex1f` -/
example : Bq.evalExtras ex1t = true ∧ Bq.evalExtras ex1f = false := by decide
theorem nv_evaluate_extras_exact_partial :
    ∃ ρ : Env Nat Nat Nat, (∀ v b, ex1t v = some b → ρ.bv v = b) ∧ B.eval ρ = true :=
  C13.evaluate_extras_exact_partial ex1t B B_wf C13.exB_edgesInh (by decide)
theorem nv_evaluate_extras_iff_partial : B.evalExtras ex1f = true ↔
    ∃ ρ : Env Nat Nat Nat, (∀ v b, ex1f v = some b → ρ.bv v = b) ∧ B.eval ρ = true :=
  C13.evaluate_extras_iff_partial ex1f B B_wf C13.exB_edgesInh
-- unconditional (closed statements): valid_inhabited (class assumptions only: instance `Rat`, used
-- in `hinhQ`), intGapF_wf, intGapF_evalExtras, intGapF_unsat, exact_fails_over_int,
-- int_not_valid_inhabited, intGapF_not_edgesInh, exact_fails_unordered, exB_edgesInh

/-! ## the model's own value type: `Val`

`MTree = Tree VarR VarB Val`.  All order-block instances exist (`Proofs/ValOrder.lean`), so every
theorem WITHOUT `DenseUnbounded` / `hinh` applies to `MTree`.  But: -/
section AtVal

/-- `ver []` (the version `0`) is the least value -/
theorem Val.ver_nil_least (c : Val) : ¬ c < Val.ver [] := by
  cases c with
  | ver a => cases a <;> simp [Val.lt_ver, verLt]
  | str s => exact Val.not_lt_str_ver s []

/-- **`DenseUnbounded Val` is FALSE** (no instance can exist): `no_min` fails at version `0` -/
theorem not_denseUnbounded_Val : ¬ DenseUnbounded Val := by
  intro h
  obtain ⟨c, hc⟩ := h.no_min (Val.ver [])
  exact Val.ver_nil_least c hc

theorem verLt_zero (l : List Nat) (h : verLt l [0] = true) : l = [] := by
  match l, h with
  | [], _ => rfl
  | b :: rest, h =>
    simp only [verLt] at h
    have hb : ¬ b < 0 := by omega
    by_cases hb' : 0 < b
    · simp [hb'] at h
    · cases rest <;> simp [hb', verLt] at h

/-- nothing lies strictly between the release lists `[1]` and `[1, 0]` (an un-normalised spelling,
    but an inhabitant of `Val`; the diagrams only store stripped lists, the TYPE does not know) -/
theorem Val.gap (c : Val) : ¬ (Val.ver [1] < c ∧ c < Val.ver [1, 0]) := by
  rintro ⟨h1, h2⟩
  cases c with
  | str s => exact Val.not_lt_str_ver s _ h2
  | ver l =>
    rw [Val.lt_ver] at h1 h2
    match l, h1, h2 with
    | [], h1, _ => simp [verLt] at h1
    | a :: tl, h1, h2 =>
      simp only [verLt] at h1 h2
      by_cases ha : a < 1
      · have : ¬ 1 < a := by omega
        simp [ha, this] at h1
      · by_cases ha' : 1 < a
        · simp [ha, ha'] at h2
        · simp only [ha, ha', if_false] at h1 h2
          have := verLt_zero tl h2
          subst this
          simp [verLt] at h1

/-- density fails as well, independently of the least element -/
theorem Val.not_dense : ¬ ∀ a b : Val, a < b → ∃ c, a < c ∧ c < b := by
  intro h
  obtain ⟨c, hc⟩ := h (Val.ver [1]) (Val.ver [1, 0]) (by decide)
  exact Val.gap c hc

/-- the explicit inhabitation hypothesis of C13b (`hinh`) is false at `Val` too:
    `(-∞, 0)` is a valid segment without any value -/
theorem val_not_valid_inhabited : ¬ ∀ iv : Ivl Val, iv.valid = true → ∃ x, iv.mem x = true := by
  intro h
  obtain ⟨x, hx⟩ := h ⟨.unb, .excl (.ver [])⟩ rfl
  simp only [Ivl.mem, Bnd.loOk, Bnd.hiOk, Bool.true_and, decide_eq_true_eq] at hx
  exact Val.ver_nil_least x hx

/-- `python_full_version < '0'`, as the model (and `version-ranges`) represents it:
    a well-formed two-edge node whose first edge is empty -/
def belowZero : MTree :=
  .rng (.ver .pfv) (.cons ⟨.unb, .excl (.ver [])⟩ (.leaf true)
    (.cons ⟨.incl (.ver []), .unb⟩ (.leaf false) .nil))

theorem belowZero_wf : belowZero.wf = true := by decide

theorem belowZero_eval (ρ : Env VarR VarB Val) : belowZero.eval ρ = false := by
  have h := Val.ver_nil_least (ρ.rv (.ver .pfv))
  simp [belowZero, Tree.eval, Edges.eval, Ivl.mem, Bnd.loOk, Bnd.hiOk, h]

/-- the CONCLUSION of `C03.is_false_iff` (hence of `equal_iff_same_function`) is false at `Val`:
    a well-formed marker that no environment satisfies and that is not the FALSE terminal -/
theorem is_false_iff_fails_at_Val :
    belowZero.wf = true ∧ (∀ ρ : Env VarR VarB Val, belowZero.eval ρ = false) ∧
      belowZero ≠ .leaf false :=
  ⟨belowZero_wf, belowZero_eval, by decide⟩

/-- likewise `C03.is_true_iff`, with the complement `python_full_version >= '0'` -/
theorem is_true_iff_fails_at_Val :
    belowZero.not.wf = true ∧ (∀ ρ : Env VarR VarB Val, belowZero.not.eval ρ = true) ∧
      belowZero.not ≠ .leaf true := by
  refine ⟨by decide, ?_, by decide⟩
  intro ρ
  rw [C02.eval_not ρ belowZero (Tree.OK_of_wf _ belowZero_wf), belowZero_eval]; rfl

/-- and `equal_iff_same_function` in its own shape -/
theorem equal_iff_same_function_fails_at_Val :
    ∃ x y : MTree, x.wf = true ∧ y.wf = true ∧ (∀ ρ : Env VarR VarB Val, x.eval ρ = y.eval ρ) ∧ x ≠ y :=
  ⟨belowZero, .leaf false, belowZero_wf, rfl, fun ρ => by rw [belowZero_eval]; rfl, by decide⟩

/-- the conclusion of `C13.evaluate_extras_exact` / `_iff_dense` is false at `Val`: the
    environment-free answer is `true`, no environment satisfies the marker -/
theorem evaluate_extras_exact_fails_at_Val (ex : VarB → Option Bool) :
    belowZero.wf = true ∧ belowZero.evalExtras ex = true ∧
      ¬ ∃ ρ : Env VarR VarB Val, (∀ v b, ex v = some b → ρ.bv v = b) ∧ belowZero.eval ρ = true := by
  refine ⟨belowZero_wf, rfl, ?_⟩
  rintro ⟨ρ, _, h⟩
  rw [belowZero_eval] at h; cases h

/-- … and this diagram fails the per-diagram hypothesis of the `_partial` forms, which are the
    forms that CAN be used at `Val` -/
theorem belowZero_not_edgesInh : ¬ belowZero.EdgesInh := by
  intro h
  simp only [belowZero, Tree.EdgesInh, Edges.AllInh] at h
  obtain ⟨x, hx⟩ := h.1
  simp only [Ivl.mem, Bnd.loOk, Bnd.hiOk, Bool.true_and, decide_eq_true_eq] at hx
  exact Val.ver_nil_least x hx

/-- the conclusion of `C12.nonempty_iff_valid` is false at `Val` -/
theorem nonempty_iff_valid_fails_at_Val :
    (Ivl.mk Bnd.unb (.excl (Val.ver []))).valid = true ∧
      ¬ ∃ x, (Ivl.mk Bnd.unb (.excl (Val.ver []))).mem x = true := by
  refine ⟨rfl, ?_⟩
  rintro ⟨x, hx⟩
  simp only [Ivl.mem, Bnd.loOk, Bnd.hiOk, Bool.true_and, decide_eq_true_eq] at hx
  exact Val.ver_nil_least x hx

/-- the conclusion of `C12.simplify_congr` (T1) is false at `Val`: with `R = (-∞, 1)` i.e.
    `requires-python < 1`, the markers `python_full_version < '0'` and FALSE agree everywhere
    (a fortiori inside `R`), are well-formed, `R` is valid and non-empty, and they simplify to
    different markers -/
theorem simplify_congr_fails_at_Val :
    (Ivl.mk Bnd.unb (.excl (Val.ver [1]))).valid = true ∧
    (∃ x, (Ivl.mk Bnd.unb (.excl (Val.ver [1]))).mem x = true) ∧
    belowZero.wf = true ∧
    (∀ ρ : Env VarR VarB Val, belowZero.eval ρ = (Tree.leaf false : MTree).eval ρ) ∧
    belowZero.simplifyPy (.ver .pfv) .unb (.excl (.ver [1])) ≠
      (Tree.leaf false : MTree).simplifyPy (.ver .pfv) .unb (.excl (.ver [1])) :=
  ⟨rfl, ⟨.ver [], by decide⟩, belowZero_wf, fun ρ => by rw [belowZero_eval]; rfl, by decide⟩

/-- the conclusion of `C12.complexify_congr` is false at `Val` (same pair, same range) -/
theorem complexify_congr_fails_at_Val :
    belowZero.wf = true ∧
    (∀ ρ : Env VarR VarB Val, belowZero.eval ρ = (Tree.leaf false : MTree).eval ρ) ∧
    belowZero.complexifyPy (.ver .pfv) .unb (.excl (.ver [1])) ≠
      (Tree.leaf false : MTree).complexifyPy (.ver .pfv) .unb (.excl (.ver [1])) :=
  ⟨belowZero_wf, fun ρ => by rw [belowZero_eval]; rfl, by decide⟩

/-- the conclusions of `C12.simplify_eval_below` / `_above` are false at `Val`: `R = ([1], [1,0])`
    is valid, the environment value `0` lies below it (resp. `2` above it), and `R` has no point
    `a` at all — for EVERY marker `m` -/
theorem simplify_eval_below_fails_at_Val (m : MTree) (ρ : Env VarR VarB Val)
    (h0 : ρ.rv (.ver .pfv) = .ver []) :
    (Ivl.mk (Bnd.excl (Val.ver [1])) (.excl (.ver [1, 0]))).valid = true ∧
    (Bnd.excl (Val.ver [1])).loOk (ρ.rv (.ver .pfv)) = false ∧
    ¬ ∃ a, (Ivl.mk (Bnd.excl (Val.ver [1])) (.excl (.ver [1, 0]))).mem a = true ∧
      ∀ x, (Ivl.mk (Bnd.excl (Val.ver [1])) (.excl (.ver [1, 0]))).mem x = true → ¬ a < x →
        (m.simplifyPy (.ver .pfv) (.excl (.ver [1])) (.excl (.ver [1, 0]))).eval ρ =
          m.eval (ρ.setR (.ver .pfv) x) := by
  refine ⟨by decide, by rw [h0]; decide, ?_⟩
  rintro ⟨a, ha, _⟩
  simp only [Ivl.mem, Bnd.loOk, Bnd.hiOk, Bool.and_eq_true, decide_eq_true_eq] at ha
  exact Val.gap a ha

theorem simplify_eval_above_fails_at_Val (m : MTree) (ρ : Env VarR VarB Val)
    (h0 : ρ.rv (.ver .pfv) = .ver [2]) :
    (Ivl.mk (Bnd.excl (Val.ver [1])) (.excl (.ver [1, 0]))).valid = true ∧
    (Bnd.excl (Val.ver [1, 0])).hiOk (ρ.rv (.ver .pfv)) = false ∧
    ¬ ∃ a, (Ivl.mk (Bnd.excl (Val.ver [1])) (.excl (.ver [1, 0]))).mem a = true ∧
      ∀ x, (Ivl.mk (Bnd.excl (Val.ver [1])) (.excl (.ver [1, 0]))).mem x = true → ¬ x < a →
        (m.simplifyPy (.ver .pfv) (.excl (.ver [1])) (.excl (.ver [1, 0]))).eval ρ =
          m.eval (ρ.setR (.ver .pfv) x) := by
  refine ⟨by decide, by rw [h0]; decide, ?_⟩
  rintro ⟨a, ha, _⟩
  simp only [Ivl.mem, Bnd.loOk, Bnd.hiOk, Bool.and_eq_true, decide_eq_true_eq] at ha
  exact Val.gap a ha

/-- the same gap as a diagram: `1 < python_full_version < 1.0` with un-normalised bound lists;
    well-formed, unsatisfiable, not FALSE — `is_false_iff` fails without using the least element -/
def gapT : MTree :=
  .rng (.ver .pfv) (.cons ⟨.unb, .incl (.ver [1])⟩ (.leaf false)
    (.cons ⟨.excl (.ver [1]), .excl (.ver [1, 0])⟩ (.leaf true)
      (.cons ⟨.incl (.ver [1, 0]), .unb⟩ (.leaf false) .nil)))
theorem gapT_fails : gapT.wf = true ∧ (∀ ρ : Env VarR VarB Val, gapT.eval ρ = false) ∧
    gapT ≠ .leaf false := by
  refine ⟨by decide, ?_, by decide⟩
  intro ρ
  have g := Val.gap (ρ.rv (.ver .pfv))
  simp only [gapT, Tree.eval, Edges.eval, Ivl.mem, Bnd.loOk, Bnd.hiOk]
  by_cases h1 : Val.ver [1] < ρ.rv (.ver .pfv) <;> by_cases h2 : ρ.rv (.ver .pfv) < Val.ver [1, 0]
  · exact absurd ⟨h1, h2⟩ g
  · simp [h1, h2]
  · simp [h1]
  · simp [h1]

/-- what CAN be used at `Val`: every theorem without the density assumption, e.g. C02/C20/C11/C12
    (first part) and the `_partial` forms of C13b — witnessed on a marker over `Val` -/
def pfvGe38 : MTree :=
  .rng (.ver .pfv) (.cons ⟨.unb, .excl (.ver [3, 8])⟩ (.leaf false)
    (.cons ⟨.incl (.ver [3, 8]), .unb⟩ (.bool (.extra (.extra "x")) (.leaf true) (.leaf false)) .nil))
theorem pfvGe38_wf : pfvGe38.wf = true := by decide
theorem pfvGe38_edgesInh : pfvGe38.EdgesInh := by
  simp only [pfvGe38, Tree.EdgesInh, Edges.AllInh, and_true, true_and]
  exact ⟨⟨.ver [], by decide⟩, ⟨.ver [3, 8], by decide⟩⟩
theorem nv_at_Val_eval_and (ρ : Env VarR VarB Val) :
    (Tree.and pfvGe38 pfvGe38.not).eval ρ = (pfvGe38.eval ρ && pfvGe38.not.eval ρ) :=
  C02.eval_and_of_wf ρ pfvGe38 pfvGe38.not pfvGe38_wf (C20.wf_not _ pfvGe38_wf)
theorem nv_at_Val_extras_iff (ex : VarB → Option Bool) : pfvGe38.evalExtras ex = true ↔
    ∃ ρ : Env VarR VarB Val, (∀ v b, ex v = some b → ρ.bv v = b) ∧ pfvGe38.eval ρ = true :=
  haveI : Nonempty Val := ⟨.ver []⟩
  C13.evaluate_extras_iff_partial ex pfvGe38 pfvGe38_wf pfvGe38_edgesInh

end AtVal

end Pep508.NonVacuityA

section
open Pep508.NonVacuityA
#print axioms nv_eval_build
#print axioms nv_and_comm_of_wf
#print axioms nv_reach_wf
#print axioms nv_simplify_eval_below
#print axioms nv_evaluate_extras_false_iff
#print axioms vacuous_agree_on_empty
#print axioms not_denseUnbounded_Val
#print axioms Val.not_dense
#print axioms val_not_valid_inhabited
#print axioms is_false_iff_fails_at_Val
#print axioms is_true_iff_fails_at_Val
#print axioms equal_iff_same_function_fails_at_Val
#print axioms evaluate_extras_exact_fails_at_Val
#print axioms simplify_congr_fails_at_Val
#print axioms complexify_congr_fails_at_Val
#print axioms simplify_eval_below_fails_at_Val
#print axioms simplify_eval_above_fails_at_Val
#print axioms gapT_fails
#print axioms belowZero_not_edgesInh
#print axioms nonempty_iff_valid_fails_at_Val
end
