/-
C15 — markers can be built and used from many threads at once (the part a model can carry).

Reading of the code (src/marker/tree.rs:653-705, algebra.rs:105-117): every mutating public
operation takes the interner mutex once and holds it for its whole recursion; reads are on the
append-only arena.  Hence a concurrent execution is *some interleaving of atomic steps* of the
state machine of C14.  This file proves that for every interleaving each thread observes,
for each of its own operations, a result whose diagram equals the one of its sequential run:
an operation's diagram is a function of its operands' diagrams only (`and_refines`), operands
keep their meaning while other threads append (`old_ids_stable`), and two threads racing to
build the same new node get the same id (`same_id_later`, `ids_canonical`).
NOT modelled (trusted, see level_note): memory ordering of lock-free reads, the mutex itself.
-/
import Pep508.Theorems.C14
namespace Pep508.C15
open Pep508
variable {νr νb α : Type}
variable [LT α] [DecidableLT α] [DecidableEq α]
variable [LT νr] [DecidableLT νr] [DecidableEq νr] [LT νb] [DecidableLT νb] [DecidableEq νb]

/-- one atomic step by some thread: a conjunction of two ids that are valid in the current state -/
structure Step where
  x : Id
  y : Id
  fuel : Nat

/-- run a schedule (any interleaving of the threads' steps, flattened) from a state -/
def runSchedule : IState νr νb α → List Step → IState νr νb α
  | s, [] => s
  | s, st :: rest => runSchedule (andI st.fuel s st.x st.y).1 rest

/-- steps whose operands are valid when they run and whose fuel suffices -/
def Schedulable : IState νr νb α → List Step → Prop
  | _, [] => True
  | s, st :: rest =>
    Id.Valid s st.x ∧ Id.Valid s st.y ∧ (den s st.x).size + (den s st.y).size < st.fuel ∧
      Schedulable (andI st.fuel s st.x st.y).1 rest

/-- the invariant survives every interleaving and the arena only grows -/
theorem schedule_inv (s : IState νr νb α) (hs : s.Inv) (sched : List Step) (h : Schedulable s sched) :
    (runSchedule s sched).Inv ∧ s.Le (runSchedule s sched) := by
  induction sched generalizing s with
  | nil => exact ⟨hs, IState.Le.refl s⟩
  | cons st rest ih =>
    obtain ⟨vx, vy, hn, hr⟩ := h
    obtain ⟨i1, l1, _, _⟩ := andI_refines st.fuel s st.x st.y hs vx vy hn
    obtain ⟨i2, l2⟩ := ih _ i1 hr
    exact ⟨i2, l1.trans l2⟩

/-- **any interleaving**: whatever other threads did in between (`before`), a thread's
    conjunction of two ids yields the diagram `Tree.and` of the operands' diagrams as they
    were when the thread obtained them — exactly what a sequential execution yields -/
theorem step_result_independent_of_interleaving (s : IState νr νb α) (hs : s.Inv)
    (before : List Step) (hb : Schedulable s before) (x y : Id) (vx : Id.Valid s x) (vy : Id.Valid s y)
    (n : Nat) (hn : (den s x).size + (den s y).size < n) :
    let s' := runSchedule s before
    den (andI n s' x y).1 (andI n s' x y).2 = Tree.and (den s x) (den s y) := by
  intro s'
  obtain ⟨i', l'⟩ := schedule_inv s hs before hb
  have ex : den s' x = den s x := den_mono hs.wf l' vx
  have ey : den s' y = den s y := den_mono hs.wf l' vy
  have := (andI_refines n s' x y i' (vx.mono l') (vy.mono l') (by rw [ex, ey]; exact hn)).2.2.2
  rw [this, ex, ey]

/-- two threads racing to create the same conjunction get the SAME id, whichever runs first and
    whatever happens in between -/
theorem racing_threads_same_id (s : IState νr νb α) (hs : s.Inv) (x y : Id)
    (vx : Id.Valid s x) (vy : Id.Valid s y) (n m : Nat)
    (hn : (den s x).size + (den s y).size < n) (hm : (den s x).size + (den s y).size < m)
    (between : List Step) (hb : Schedulable (andI n s x y).1 between) :
    (andI m (runSchedule (andI n s x y).1 between) x y).2 = (andI n s x y).2 := by
  obtain ⟨i1, _, _, _⟩ := andI_refines n s x y hs vx vy hn
  obtain ⟨i2, l2⟩ := schedule_inv _ i1 between hb
  exact andI_same_id n m s _ x y hs i2 vx vy l2 hn hm

end Pep508.C15
