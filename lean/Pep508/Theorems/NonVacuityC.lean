/-
Non-vacuity witnesses, group C: C06, C07, C07b, C08, C18, C18b, C19, C19b
(cursor, requirement parser, URL rules, variable expansion, unnamed parser).

For every theorem of those files that has hypotheses, the theorem is APPLIED below to concrete,
non-trivial values, with every hypothesis discharged — so Lean checks that the hypotheses are
jointly satisfiable.
-/
import Pep508.Theorems.C06
import Pep508.Theorems.C07
import Pep508.Theorems.C07b
import Pep508.Theorems.C08
import Pep508.Theorems.C18
import Pep508.Theorems.C18b
import Pep508.Theorems.C19
import Pep508.Theorems.C19b
namespace Pep508.NonVacuityC
open Pep508 Pep508.Cursor

/-- an external version parser that knows nothing -/
def x0 : Ext := ⟨fun _ => none, fun _ => none, fun _ => false⟩

/-- a non-empty process environment -/
def env0 : ProcEnv := ⟨[("A".toList, "va".toList), ("B".toList, "${A}".toList)], "/w".toList⟩

/-- from a computed "is ok" to the existence of the result -/
theorem res_ok {β : Type} (r : Res β) (h : (match r with | .ok _ => true | _ => false) = true) :
    ∃ v, r = .ok v := by
  cases r with
  | ok v => exact ⟨v, rfl⟩
  | err e => simp at h
  | panic s => simp at h

/-! ## the marker-parser hypothesis `parseMarkersCursor … = .ok st`, one instance per shape -/

/-- C08, URL + marker: `a-b @ https://e.x/p ; os_name=='a'` -/
theorem r4_marker_ok : ∃ st, parseMarkersCursor x0 (4 * (showReq C08.r4).length + 16)
    ⟨showReq C08.r4, "os_name=='a'".toList, C08.r4.markerPos⟩ = .ok st :=
  res_ok _ (by decide)

/-- … and the parsed tree is not dropped, so the outcome is `urlEndsOk` -/
theorem res_ok_p {β : Type} (p : β → Bool) (r : Res β)
    (h : (match r with | .ok v => p v | _ => false) = true) : ∃ v, r = .ok v ∧ p v = true := by
  cases r with
  | ok v => exact ⟨v, rfl, h⟩
  | err e => simp at h
  | panic s => simp at h

theorem res_ok2 (r₁ r₂ : Res PState)
    (h : (match r₁, r₂ with
      | .ok a, .ok b => decide (a.tree = b.tree ∧ a.warns = b.warns)
      | _, _ => false) = true) :
    ∃ a b, r₁ = .ok a ∧ r₂ = .ok b ∧ a.tree = b.tree ∧ a.warns = b.warns := by
  cases r₁ with
  | ok a =>
    cases r₂ with
    | ok b => simp at h; exact ⟨a, b, rfl, rfl, h.1, h.2⟩
    | err e => simp at h
    | panic s => simp at h
  | err e => simp at h
  | panic s => simp at h

/-! ## C08 -/
section C08

-- `C08.printed_form`: unconditional.
-- `C08.roundtrip`: already witnessed in the file (`r1`: specifiers, `r3`: URL).
-- `C08.roundtrip_marker`, specifier shape: already witnessed in the file (`r2`, `r2_marker_ok`).

/-- `C08.roundtrip_marker`, URL + marker shape (the file's `r4` example leaves `hst` as a hypothesis):
the hypothesis is satisfiable and the outcome is an actual `urlEndsOk` -/
example (env : ProcEnv) : ∃ alts ok,
    (parseRequirement env x0 "a-b @ https://e.x/p ; os_name=='a'".toList).fin = .urlEndsOk alts ok := by
  obtain ⟨st, hst, htree⟩ := res_ok_p (fun st => st.tree.isSome)
    (parseMarkersCursor x0 (4 * (showReq C08.r4).length + 16)
      ⟨showReq C08.r4, "os_name=='a'".toList, C08.r4.markerPos⟩) (by decide)
  have h := congrArg ReqOut.fin (C08.roundtrip_marker env x0 C08.r4 C08.r4_wf _ rfl st hst)
  have hs : showReq C08.r4 = "a-b @ https://e.x/p ; os_name=='a'".toList := by decide
  rw [hs] at h
  simp only [ReqVal.expFin, C08.r4, htree, if_true] at h
  exact ⟨_, _, h⟩

/-- `C08.marker_cursor` -/
example : Cursor.Inv ⟨showReq C08.r4, "os_name=='a'".toList, C08.r4.markerPos⟩ :=
  C08.marker_cursor C08.r4 _ rfl

/-- `C08.calls` (specifiers + marker, URL + marker) -/
example (env : ProcEnv) (x : Ext) : (parseRequirement env x (showReq C08.r2)).calls = C08.r2.expCalls :=
  C08.calls env x C08.r2 C08.r2_wf
example (env : ProcEnv) (x : Ext) : (parseRequirement env x (showReq C08.r4)).calls = C08.r4.expCalls :=
  C08.calls env x C08.r4 C08.r4_wf

/-- `C08.calls_spans` -/
example (env : ProcEnv) (x : Ext) : ∀ call ∈ C08.r2.expCalls, call.OK (showReq C08.r2) :=
  C08.calls_spans env x C08.r2 C08.r2_wf
example : C08.r2.expCalls = [.spec ">=1".toList 8 3, .spec "<2 ".toList 12 3] := rfl

/-- `C08.never_rejected`: specifiers + marker, and URL + marker -/
example (env : ProcEnv) :
    (∀ e, (parseRequirement env x0 (showReq C08.r2)).fin ≠ .err e) ∧
    (∀ s, (parseRequirement env x0 (showReq C08.r2)).fin ≠ .panic s) ∧
    (∀ alts other, (parseRequirement env x0 (showReq C08.r2)).fin ≠ .urlEnds alts other) :=
  C08.never_rejected env x0 C08.r2 C08.r2_wf (by
    intro m hm
    have : m = "os_name=='a'".toList := by simpa [C08.r2] using hm.symm
    subst this
    exact C08.r2_marker_ok)
example (env : ProcEnv) :
    (∀ e, (parseRequirement env x0 (showReq C08.r4)).fin ≠ .err e) ∧
    (∀ s, (parseRequirement env x0 (showReq C08.r4)).fin ≠ .panic s) ∧
    (∀ alts other, (parseRequirement env x0 (showReq C08.r4)).fin ≠ .urlEnds alts other) :=
  C08.never_rejected env x0 C08.r4 C08.r4_wf (by
    intro m hm
    have : m = "os_name=='a'".toList := by simpa [C08.r4] using hm.symm
    subst this
    exact r4_marker_ok)

/-- `C08.name_fixed` -/
example : normName "a-b0".toList = "a-b0".toList.map Char.toNat := C08.name_fixed _ (by decide)

/-- `C08.no_dot_not_archive` -/
example : looksLikeArchive "a-b_c".toList = false := C08.no_dot_not_archive _ (by decide)

-- `C08.url_semicolon_marker_rejected`, `C08.archive_name_rejected`: closed statements (∀ env x).
end C08

/-! ## C07 / C07b -/
section C07

/-- `C07.name_accepted`: a three-byte prefix (`é` + blank), the name `a-B_c.9`, then `[x]` -/
example (env : ProcEnv) :
    parseName env ⟨"é ".toList ++ "a-B_c.9".toList ++ "[x]".toList, "a-B_c.9".toList ++ "[x]".toList,
        strLen "é ".toList⟩ =
      .ok (Names.normSpec ("a-B_c.9".toList.map Char.toNat),
        ⟨"é ".toList ++ "a-B_c.9".toList ++ "[x]".toList, "[x]".toList,
          strLen "é ".toList + strLen "a-B_c.9".toList⟩) :=
  C07.name_accepted env "é ".toList "a-B_c.9".toList "[x]".toList (by simp)
    (by intro ch h; simp at h; subst h; decide)
    (by decide)
    (by intro ch h; simp at h; subst h; decide)
    (by intro ch h; simp at h; subst h; decide)

-- `C07.leading_ws_same_diagnosis`: closed statement (∀ env x).

/-- `v1` without its marker -/
def v1n : ReqVal := { C07.v1 with marker := none }

theorem v1n_wf : v1n.WFL := ⟨C07.v1_wf.name, C07.v1_wf.extras, C07.v1_wf.kind⟩

theorem v1n_notrail : v1n.NoTrailWs := C07.v1_notrail

/-- `C07.layout_accepted` (besides the `a@u`, `a[ ]` instances of the file): extras, two specifiers in
parentheses, whitespace (a tab, a line break) everywhere -/
example (env : ProcEnv) (x : Ext) :
    parseRequirement env x (layoutReq v1n C07.l1) =
      ⟨expCallsL v1n C07.l1, .ok (expOkL v1n C07.l1 (.leaf true) [])⟩ :=
  C07.layout_accepted env x v1n C07.l1 v1n_wf C07.l1_ws trivial rfl
example : layoutReq v1n C07.l1 = " a [ x , y ]  ( >= 1\t,\n< 2 ) ".toList := by decide

/-- `C07.layout_accepted_marker`, specifier shape: hypothesis discharged by `C07.v1_marker_ok` -/
example (env : ProcEnv) : ∃ st,
    parseRequirement env C07.x0 (layoutReq C07.v1 C07.l1) =
      ⟨expCallsL C07.v1 C07.l1, expFinL C07.v1 C07.l1 st⟩ := by
  obtain ⟨st, h⟩ := C07.v1_marker_ok C07.l1 (.inr rfl)
  exact ⟨st, C07.layout_accepted_marker env C07.x0 C07.v1 C07.l1 C07.v1_wf C07.l1_ws trivial _ rfl st h⟩

/-- a URL requirement with extras and a marker -/
def u1 : ReqVal := ⟨"a-b".toList, ["x".toList], .url "https://e.x/p".toList, some "os_name=='a'".toList⟩

theorem u1_wf : u1.WFL :=
  ⟨nameOk_wf (by decide), by intro e h; simp [u1] at h; subst h; exact nameOk_wf (by decide),
   ⟨by simp, by decide⟩⟩

/-- whitespace everywhere around a URL -/
def lu : Layout :=
  { C07.l0 with lead := [' '], afterName := ['\t'], exOpen := [' '], exClose := [' '], beforeKind := [' '],
                afterAt := [' ', ' '], afterKind := ['\t', ' '], afterSemi := [' '], trail := [' ', ' '] }

theorem lu_ws : lu.Ws := Layout.ws_of_ok (by decide)
theorem lu_fits : lu.Fits u1 := ⟨fun _ => by decide, fun _ => by decide⟩

example : layoutReq u1 lu = " a-b\t[ x ] @  https://e.x/p\t ; os_name=='a'  ".toList := by decide

/-- the marker hypothesis at the URL + marker cursor is satisfiable, with a tree that is kept -/
theorem u1_marker_ok : ∃ st, parseMarkersCursor x0 (4 * (layoutReq u1 lu).length + 16)
    ⟨layoutReq u1 lu, "os_name=='a'".toList ++ lu.trail, lu.markerPos u1⟩ = .ok st ∧
    st.tree.isSome = true :=
  res_ok_p (fun st : PState => st.tree.isSome) _ (by decide)

/-- `C07.layout_accepted_marker`, URL + marker shape -/
example (env : ProcEnv) : ∃ st,
    parseRequirement env x0 (layoutReq u1 lu) = ⟨expCallsL u1 lu, expFinL u1 lu st⟩ ∧
    st.tree.isSome = true := by
  obtain ⟨st, h, ht⟩ := u1_marker_ok
  exact ⟨st, C07.layout_accepted_marker env x0 u1 lu u1_wf lu_ws lu_fits _ rfl st h, ht⟩

/-- `C07.marker_cursor` -/
example : Cursor.Inv ⟨layoutReq C07.v1 C07.l1, "os_name=='a'".toList ++ C07.l1.trail, C07.l1.markerPos C07.v1⟩ :=
  C07.marker_cursor C07.v1 C07.l1 _ rfl
example : Cursor.Inv ⟨layoutReq u1 lu, "os_name=='a'".toList ++ lu.trail, lu.markerPos u1⟩ :=
  C07.marker_cursor u1 lu _ rfl

/-- `C07.layout_calls`, `C07.layout_calls_spans` -/
example (env : ProcEnv) (x : Ext) :
    (parseRequirement env x (layoutReq C07.v1 C07.l1)).calls = expCallsL C07.v1 C07.l1 :=
  C07.layout_calls env x C07.v1 C07.l1 C07.v1_wf C07.l1_ws trivial
example (env : ProcEnv) (x : Ext) : (parseRequirement env x (layoutReq u1 lu)).calls = expCallsL u1 lu :=
  C07.layout_calls env x u1 lu u1_wf lu_ws lu_fits
example (env : ProcEnv) (x : Ext) : ∀ call ∈ expCallsL C07.v1 C07.l1, call.OK (layoutReq C07.v1 C07.l1) :=
  C07.layout_calls_spans env x C07.v1 C07.l1 C07.v1_wf C07.l1_ws trivial
example (env : ProcEnv) (x : Ext) : ∀ call ∈ expCallsL u1 lu, call.OK (layoutReq u1 lu) :=
  C07.layout_calls_spans env x u1 lu u1_wf lu_ws lu_fits
example : expCallsL u1 lu = [.url "https://e.x/p".toList 14 13] := rfl

/-- `C07.recorded_texts_trim` -/
example : (recTexts [">= 1".toList, "< 2".toList] C07.l1).map trimWs = [">= 1".toList, "< 2".toList] :=
  C07.recorded_texts_trim _ C07.l1 C07.l1_ws C07.v1_wf.kind.2 C07.v1_notrail
example : recTexts [">= 1".toList, "< 2".toList] C07.l1 = [">= 1\t".toList, "\n< 2 ".toList] := by decide

/-- `C07.layout_never_rejected`: specifiers + marker, URL + marker -/
example (env : ProcEnv) : ∃ ok, (parseRequirement env C07.x0 (layoutReq C07.v1 C07.l1)).fin.req? = some ok :=
  C07.layout_never_rejected env C07.x0 C07.v1 C07.l1 C07.v1_wf C07.l1_ws trivial (by
    intro m hm
    have : m = "os_name=='a'".toList := by simpa [C07.v1] using hm.symm
    subst this
    exact C07.v1_marker_ok C07.l1 (.inr rfl))
example (env : ProcEnv) : ∃ ok, (parseRequirement env x0 (layoutReq u1 lu)).fin.req? = some ok :=
  C07.layout_never_rejected env x0 u1 lu u1_wf lu_ws lu_fits (by
    intro m hm
    have : m = "os_name=='a'".toList := by simpa [u1] using hm.symm
    subst this
    obtain ⟨st, h, _⟩ := u1_marker_ok
    exact ⟨st, h⟩)

/-- `C07.layout_components` -/
example (env : ProcEnv) (x : Ext) :
    (parseRequirement env x (layoutReq v1n C07.l1)).fin.req?.map ReqOk.trim =
      some (v1n.components (.leaf true) []) :=
  C07.layout_components env x v1n C07.l1 v1n_wf C07.l1_ws trivial v1n_notrail rfl

-- `C07.layout_components_marker`: already witnessed in the file (specifier shape, `l0` and `l1`).
/-- … URL + marker shape -/
example (env : ProcEnv) : ∃ st : PState,
    (parseRequirement env x0 (layoutReq u1 lu)).fin.req?.map ReqOk.trim =
      some (u1.components (st.tree.getD (.leaf true)) st.warns) := by
  obtain ⟨st, h, _⟩ := u1_marker_ok
  exact ⟨st, C07.layout_components_marker env x0 u1 lu u1_wf lu_ws lu_fits trivial _ rfl st h⟩

/-- `C07.whitespace_irrelevant`: `a[x,y]>= 1,< 2` and ` a [ x , y ]  ( >= 1\t,\n< 2 ) ` -/
example (env : ProcEnv) (x : Ext) :
    (parseRequirement env x (layoutReq v1n C07.l0)).fin.req?.map ReqOk.trim =
      (parseRequirement env x (layoutReq v1n C07.l1)).fin.req?.map ReqOk.trim :=
  C07.whitespace_irrelevant env x v1n C07.l0 C07.l1 v1n_wf C07.l0_ws C07.l1_ws trivial trivial v1n_notrail rfl

/-- `C07.whitespace_irrelevant_marker`: all four marker hypotheses (two parses, equal trees, equal
warnings) hold for `v1` written with `l0` and `l1` -/
example (env : ProcEnv) :
    (parseRequirement env x0 (layoutReq C07.v1 C07.l0)).fin.req?.map ReqOk.trim =
      (parseRequirement env x0 (layoutReq C07.v1 C07.l1)).fin.req?.map ReqOk.trim := by
  obtain ⟨a, b, ha, hb, ht, hw⟩ := res_ok2
    (parseMarkersCursor x0 (4 * (layoutReq C07.v1 C07.l0).length + 16)
      ⟨layoutReq C07.v1 C07.l0, "os_name=='a'".toList ++ C07.l0.trail, C07.l0.markerPos C07.v1⟩)
    (parseMarkersCursor x0 (4 * (layoutReq C07.v1 C07.l1).length + 16)
      ⟨layoutReq C07.v1 C07.l1, "os_name=='a'".toList ++ C07.l1.trail, C07.l1.markerPos C07.v1⟩)
    (by decide)
  exact C07.whitespace_irrelevant_marker env x0 C07.v1 C07.l0 C07.l1 C07.v1_wf C07.l0_ws C07.l1_ws
    trivial trivial C07.v1_notrail _ rfl a b ha hb ht hw

/-- `C07.printed_is_layout` -/
example : showReq C08.r2 = layoutReq C08.r2 (Layout.canon C08.r2) ∧ (Layout.canon C08.r2).Ws :=
  C07.printed_is_layout C08.r2 (by intro h; cases h)
example : showReq C08.r4 = layoutReq C08.r4 (Layout.canon C08.r4) ∧ (Layout.canon C08.r4).Ws :=
  C07.printed_is_layout C08.r4 (by intro h; cases h)

/-- `C07.url_blank_semicolon_marker`: its hypothesis `h` is satisfiable (with `x := x0`), and the tree is
kept, so the `urlEndsOk` branch is the one taken -/
example (env : ProcEnv) : ∃ tree warns,
    parseRequirement env x0 "a @ u ;os_name=='a'".toList =
      ⟨[.url ['u'] 4 1],
        .urlEndsOk [(';', ⟨.string, 4, 1⟩), ('#', ⟨.string, 4, 1⟩)] ⟨[97], [], .url ['u'], tree, warns⟩⟩ := by
  obtain ⟨st, h, ht⟩ := res_ok_p (fun st => st.tree.isSome)
    (parseMarkersCursor x0 (4 * 19 + 16) ⟨"a @ u ;os_name=='a'".toList, "os_name=='a'".toList, 7⟩) (by decide)
  have := C07.url_blank_semicolon_marker env x0 st h
  rw [if_pos ht] at this
  exact ⟨_, _, this⟩

-- `v1_wf`, `v1_notrail`, `l1_ws`, `l0_ws`, `v1_marker_ok`: closed statements about the concrete instances.
-- `url_semicolon_glued_swallows_marker`, `trailing_blank_after_url_*_changes_outcome`, `blank_inside_url`,
-- `empty_parentheses_call`, `bare_scan_takes_parentheses`: closed statements (∀ env x).
end C07

/-! ## C06 -/
section C06

theorem res_err {β : Type} (p : PErr → Bool) (r : Res β)
    (h : (match r with | .err e => p e | _ => false) = true) : ∃ e, r = .err e ∧ p e = true := by
  cases r with
  | ok v => simp at h
  | err e => exact ⟨e, rfl, h⟩
  | panic s => simp at h

/-- multi-byte text after a complete expression -/
def badMarker : List Char := "os_name=='a' é".toList

theorem badMarker_err : ∃ e, parseMarkers x0 badMarker = .err e ∧ (e.start == 13) = true :=
  res_err (fun e => e.start == 13) _ (by decide)

theorem badExpr_err : ∃ e, parseExpression x0 badMarker = .err e ∧ (e.start == 13) = true :=
  res_err (fun e => e.start == 13) _ (by decide)

-- `marker_tree_never_panics`, `marker_expression_never_panics`, `requirement_never_panics`,
-- `requirement_external_calls`: unconditional.

/-- `C06.marker_tree_err_span` -/
example : ∃ e, parseMarkers x0 badMarker = .err e ∧ Boundary badMarker e.start ∧ e.start ≤ strLen badMarker := by
  obtain ⟨e, h, _⟩ := badMarker_err
  exact ⟨e, h, C06.marker_tree_err_span x0 badMarker e h⟩

/-- `C06.marker_tree_err_sliceable` -/
example : ∃ e r, parseMarkers x0 badMarker = .err e ∧ dropBytes badMarker e.start = some r := by
  obtain ⟨e, h, _⟩ := badMarker_err
  obtain ⟨r, hr⟩ := C06.marker_tree_err_sliceable x0 badMarker e h
  exact ⟨e, r, h, hr⟩

/-- `C06.marker_expression_err_span` -/
example : ∃ e, parseExpression x0 badMarker = .err e ∧ Boundary badMarker e.start ∧ e.start ≤ strLen badMarker := by
  obtain ⟨e, h, _⟩ := badExpr_err
  exact ⟨e, h, C06.marker_expression_err_span x0 badMarker e h⟩

/-- a cursor in the middle of a text with a two-byte and a three-byte character -/
def cMid : Cursor := ⟨"aé語[x, y] b".toList, "語[x, y] b".toList, 3⟩

theorem cMid_inv : cMid.Inv := ⟨"aé".toList, by decide, by decide⟩

/-- `C06.take_while_sliceable` -/
example : ∃ taken, sliceBytes cMid.input (cMid.takeWhile (fun ch => !isWs ch)).1.1
    (cMid.takeWhile (fun ch => !isWs ch)).1.2 = some taken :=
  C06.take_while_sliceable cMid _ cMid_inv
example : sliceBytes cMid.input (cMid.takeWhile (fun ch => !isWs ch)).1.1
    (cMid.takeWhile (fun ch => !isWs ch)).1.2 = some "語[x,".toList := by decide

/-- `C06.requirement_err_span`: `a @ u; ` is an error at byte 5 -/
theorem reqErr (env : ProcEnv) (x : Ext) :
    (parseRequirement env x "a @ u; ".toList).fin = .err ⟨.string, 5, 1⟩ :=
  congrArg ReqOut.fin (C07.trailing_blank_after_url_semicolon_changes_outcome env x).2

example (env : ProcEnv) (x : Ext) : Boundary "a @ u; ".toList 5 :=
  C06.requirement_err_span env x _ ⟨.string, 5, 1⟩ (reqErr env x)

/-- an input whose outcome is `urlEnds` exists: a URL (starting with a two-byte char), a blank, a comment -/
theorem urlEnds_instance (env : ProcEnv) (x : Ext) :
    parseRequirement env x "a @ é/u #c".toList =
      ⟨[.url "é/u".toList 4 4],
        .urlEnds [(';', ⟨.string, 7, 1⟩), ('#', ⟨.string, 7, 1⟩)] ⟨.string, 9, 1⟩⟩ := by
  rw [show "a @ é/u #c".toList = 'a' :: " @ é/u #c".toList from rfl,
    parse_a env x _ (by intro ch h; simp at h; subst h; decide)]
  rfl

/-- `C06.requirement_url_ends_span`: all hypotheses hold for `a @ é/u #c` -/
example (env : ProcEnv) (x : Ext) : Boundary "a @ é/u #c".toList 7 ∧ Boundary "a @ é/u #c".toList 9 :=
  C06.requirement_url_ends_span env x "a @ é/u #c".toList
    [(';', ⟨.string, 7, 1⟩), ('#', ⟨.string, 7, 1⟩)] ⟨.string, 9, 1⟩
    (congrArg ReqOut.fin (urlEnds_instance env x))
    '#' ⟨.string, 7, 1⟩ (by simp) "é/u".toList 4 4
    (by rw [urlEnds_instance env x]; simp) 'u' (by decide) (by decide)

/-- the hypothesis `utf8Len lastc = 1` of `requirement_url_ends_span` is not idle: for a URL text that ends
with a two-byte char (`a @ é #c`) the outcome is `urlEnds` as well, and the span start of its alternatives
(byte 5) is NOT a char boundary (by design: those alternatives are only selected when the external URL
printer's text ends with `;` / `#`) -/
theorem urlEnds_multibyte (env : ProcEnv) (x : Ext) :
    parseRequirement env x "a @ é #c".toList =
      ⟨[.url "é".toList 4 2], .urlEnds [(';', ⟨.string, 5, 1⟩), ('#', ⟨.string, 5, 1⟩)] ⟨.string, 7, 1⟩⟩ ∧
    ¬ Boundary "a @ é #c".toList 5 := by
  constructor
  · rw [show "a @ é #c".toList = 'a' :: " @ é #c".toList from rfl,
      parse_a env x _ (by intro ch h; simp at h; subst h; decide)]
    rfl
  · intro hb
    obtain ⟨r, hr⟩ := hb.dropBytes_isSome
    have : dropBytes "a @ é #c".toList 5 = none := by decide
    rw [this] at hr
    exact absurd hr (by simp)

/-- an input whose outcome is `urlEndsOk` exists (external parsers `x0`): URL, blank, marker -/
theorem urlEndsOk_instance (env : ProcEnv) : ∃ tree warns,
    parseRequirement env x0 "a @ u ;os_name=='a'".toList =
      ⟨[.url ['u'] 4 1],
        .urlEndsOk [(';', ⟨.string, 4, 1⟩), ('#', ⟨.string, 4, 1⟩)] ⟨[97], [], .url ['u'], tree, warns⟩⟩ := by
  obtain ⟨st, h, ht⟩ := res_ok_p (fun st : PState => st.tree.isSome)
    (parseMarkersCursor x0 (4 * 19 + 16) ⟨"a @ u ;os_name=='a'".toList, "os_name=='a'".toList, 7⟩) (by decide)
  have := C07.url_blank_semicolon_marker env x0 st h
  rw [if_pos ht] at this
  exact ⟨_, _, this⟩

/-- `C06.requirement_url_ends_ok_span`: all hypotheses hold for `a @ u ;os_name=='a'` -/
example (env : ProcEnv) : Boundary "a @ u ;os_name=='a'".toList 4 := by
  obtain ⟨tree, warns, h⟩ := urlEndsOk_instance env
  exact C06.requirement_url_ends_ok_span env x0 _ _ _ (congrArg ReqOut.fin h)
    ';' ⟨.string, 4, 1⟩ (by simp) ['u'] 4 1 (by rw [h]; simp) 'u' (by decide) (by decide)

/-- the other branch of `expFin` / `expFinL` for URL + marker is reachable too: the marker
`python_version=='x'` is reported and dropped by `x0` (no tree), so the outcome is plain `.ok` -/
def uDrop : ReqVal := ⟨['a'], [], .url ['u'], some "python_version=='x'".toList⟩
def lDrop : Layout := { C07.l0 with beforeKind := [' '], afterAt := [' '], afterKind := [' '] }

example (env : ProcEnv) : ∃ ok,
    (parseRequirement env x0 "a @ u ;python_version=='x'".toList).fin = .ok ok := by
  obtain ⟨st, h, ht⟩ := res_ok_p (fun st : PState => st.tree.isNone)
    (parseMarkersCursor x0 (4 * (layoutReq uDrop lDrop).length + 16)
      ⟨layoutReq uDrop lDrop, "python_version=='x'".toList ++ lDrop.trail, lDrop.markerPos uDrop⟩) (by decide)
  have h2 := congrArg ReqOut.fin (C07.layout_accepted_marker env x0 uDrop lDrop
    ⟨nameOk_wf (by decide), by intro e h; simp [uDrop] at h, ⟨by simp, by decide⟩⟩ (Layout.ws_of_ok (by decide))
    ⟨fun _ => by decide, fun _ => by decide⟩ _ rfl st h)
  have hs : layoutReq uDrop lDrop = "a @ u ;python_version=='x'".toList := by decide
  have ht' : st.tree.isSome = false := by
    cases hh : st.tree with
    | none => rfl
    | some t => rw [hh] at ht; simp at ht
  rw [hs] at h2
  simp only [expFinL, uDrop, ht', Bool.false_eq_true, if_false] at h2
  exact ⟨_, h2⟩

/-- `C06.display_never_panics`: a boundary after a three-byte char, a length that is not one -/
example : ∃ r, errDisplaySlices ['a', '語', 'b'] 4 7 = some r :=
  C06.display_never_panics _ 4 7 ⟨['a', '語'], ['b'], rfl, by decide⟩

/-- `C06.marker_tree_err_renderable`, `C06.marker_expression_err_renderable`, `C06.requirement_err_renderable` -/
example : ∃ e r, parseMarkers x0 badMarker = .err e ∧ errDisplaySlices badMarker e.start e.len = some r := by
  obtain ⟨e, h, _⟩ := badMarker_err
  obtain ⟨r, hr⟩ := C06.marker_tree_err_renderable x0 badMarker e h
  exact ⟨e, r, h, hr⟩
example : ∃ e r, parseExpression x0 badMarker = .err e ∧ errDisplaySlices badMarker e.start e.len = some r := by
  obtain ⟨e, h, _⟩ := badExpr_err
  obtain ⟨r, hr⟩ := C06.marker_expression_err_renderable x0 badMarker e h
  exact ⟨e, r, h, hr⟩
example (env : ProcEnv) (x : Ext) : ∃ r, errDisplaySlices "a @ u; ".toList 5 1 = some r :=
  C06.requirement_err_renderable env x _ ⟨.string, 5, 1⟩ (reqErr env x)

/-- `C06.display_underlines_within` -/
example : ∃ rest, ['a', '語', 'b'] = ['a'] ++ ['語'] ++ rest ∧ strLen ['a'] = 1 ∧ strLen ['語'] ≤ 3 :=
  C06.display_underlines_within ['a', '語', 'b'] 1 3 ['a'] ['語'] (by decide)

/-- `C06.extras_never_panic`, `C06.name_never_panics`: a cursor satisfying `Inv` in the middle of a text,
in front of an extras list -/
def cEx : Cursor := ⟨"aé語[x, y] b".toList, "[x, y] b".toList, 6⟩
theorem cEx_inv : cEx.Inv := ⟨"aé語".toList, by decide, by decide⟩

example : ∀ s, parseExtras cEx ≠ .panic s := C06.extras_never_panic cEx_inv
example (env : ProcEnv) : ∀ s, parseName env cMid ≠ .panic s := C06.name_never_panics env cMid_inv
end C06

/-! ## C18 / C18b -/
section C18

/-- the cursor right after `@` in `a @ é/u #c` -/
def cUrl : Cursor := ⟨"a @ é/u #c".toList, " é/u #c".toList, 3⟩
theorem cUrl_inv : cUrl.Inv := ⟨"a @".toList, by decide, by decide⟩

/-- `C18.scan_is_rule` (fuel 20 > 6 remaining chars) -/
example : urlScan 20 cUrl.eatWhitespace 0 =
    match urlEnd cUrl.eatWhitespace.rest with
    | .inl u => .inl (0 + strLen u, urlAfter cUrl.eatWhitespace (u.length + 1))
    | .inr b => .inr (cUrl.eatWhitespace.pos + strLen b, 1) :=
  C18.scan_is_rule 20 cUrl.eatWhitespace 0 (by decide)
example : urlEnd cUrl.eatWhitespace.rest = .inl "é/u".toList := by decide

/-- `C18.rule_url` -/
example : ∃ r, "é/u \t;x".toList = "é/u".toList ++ r ∧ stopAt r = true ∧
    ∀ a b, "é/u \t;x".toList = a ++ b → a.length < "é/u".toList.length → stopAt b = false ∧ ambAt b = false :=
  C18.rule_url _ _ (by decide)

/-- `C18.rule_ambiguous` -/
example : ∃ r, "é/u; x".toList = "é/u".toList ++ r ∧ ambAt r = true ∧ stopAt r = false ∧
    ∀ a b', "é/u; x".toList = a ++ b' → a.length < "é/u".toList.length → stopAt b' = false ∧ ambAt b' = false :=
  C18.rule_ambiguous _ _ (by decide)

/-- `C18.parse_url_is_rule` -/
example : parseUrl cUrl =
    match urlEnd cUrl.eatWhitespace.rest with
    | .inr b => serr (cUrl.eatWhitespace.pos + strLen b) 1
    | .inl u =>
      if u.isEmpty then serr cUrl.eatWhitespace.pos 0
      else .ok ((u, cUrl.eatWhitespace.pos, strLen u), urlAfter cUrl.eatWhitespace (u.length + 1)) :=
  C18.parse_url_is_rule cUrl_inv

-- C18b: `expand_meets_spec`, `expand_iff_spec`, `matchVar_is_ref`, `matchVar_none_is_no_ref`, `expand_nil`,
-- `refText_is`, `cut_before_dollar`, `cut_needs_condition`, `lookupVar_is`, `lookupVar_none_iff`,
-- `empty_name`: unconditional.

/-- `C18.spec_functional`: two derivations of `Expands` for the same (non-trivial) input -/
example : expandEnvVars env0 "h/${A}/${B}/${C}".toList = "h/va/${A}/${C}".toList :=
  C18.spec_functional env0 "h/${A}/${B}/${C}".toList _ _ (C18.expand_meets_spec _ _)
    ((C18.expand_iff_spec _ _ _).1 (by decide))

/-- `C18.expand_ref` -/
example : expandEnvVars env0 ('$' :: '{' :: "A".toList ++ '}' :: "/x${B}".toList) =
    substVar env0 "A".toList ++ expandEnvVars env0 "/x${B}".toList :=
  C18.expand_ref env0 "A".toList "/x${B}".toList (by decide)

/-- `C18.expand_char`: a `$` that does not start a reference (`${a}`) -/
example : expandEnvVars env0 ('$' :: "{a}${A}".toList) = '$' :: expandEnvVars env0 "{a}${A}".toList :=
  C18.expand_char env0 '$' "{a}${A}".toList ((C18.matchVar_none_is_no_ref _).1 (by decide))

/-- `C18.no_dollar_unchanged`, `C18.no_dollar_prefix` -/
example : expandEnvVars env0 "https://h/{A}".toList = "https://h/{A}".toList :=
  C18.no_dollar_unchanged env0 _ (by decide)
example : expandEnvVars env0 ("https://h/".toList ++ "${A}".toList) = "https://h/".toList ++ expandEnvVars env0 "${A}".toList :=
  C18.no_dollar_prefix env0 _ _ (by decide)

/-- `C18.reference_anywhere`: a partial reference right in front of the reference -/
example : expandEnvVars env0 ("${A".toList ++ refText "A".toList ++ "}${B}".toList) =
    expandEnvVars env0 "${A".toList ++ substVar env0 "A".toList ++ expandEnvVars env0 "}${B}".toList :=
  C18.reference_anywhere env0 _ _ _ (by decide)

/-- `C18.set_variable`, `C18.unset_variable` -/
example : expandEnvVars env0 ("x${B}".toList ++ refText "A".toList ++ "/y".toList) =
    expandEnvVars env0 "x${B}".toList ++ "va".toList ++ expandEnvVars env0 "/y".toList :=
  C18.set_variable env0 _ "A".toList _ "va".toList (by decide) (by decide)
example : expandEnvVars env0 ("x${B}".toList ++ refText "C_1".toList ++ "/y".toList) =
    expandEnvVars env0 "x${B}".toList ++ refText "C_1".toList ++ expandEnvVars env0 "/y".toList :=
  C18.unset_variable env0 _ "C_1".toList _ (by decide) (by decide)

/-- `C18.cut`: a `NoStraddle` pair that is covered neither by `SafeStart` nor by `SafeEnd` -/
example : expandEnvVars env0 ("{AB".toList ++ "}${A}".toList) =
    expandEnvVars env0 "{AB".toList ++ expandEnvVars env0 "}${A}".toList :=
  C18.cut env0 _ _ (NoStraddle.of_no_dollar (by decide) _)

/-- `C18.cut_before_safe`, `C18.cut_after_safe` -/
example : expandEnvVars env0 ("${A".toList ++ "/${A}".toList) =
    expandEnvVars env0 "${A".toList ++ expandEnvVars env0 "/${A}".toList :=
  C18.cut_before_safe env0 _ _ (SafeStart.cons _ (by decide) (by decide) (by decide))
example : expandEnvVars env0 ("${A}/".toList ++ "{A}".toList) =
    expandEnvVars env0 "${A}/".toList ++ expandEnvVars env0 "{A}".toList :=
  C18.cut_after_safe env0 _ _ (by intro c h; simp at h; subst h; decide)

/-- `C18.lookupVar_of_set`: the second binding of `env0` -/
example : lookupVar env0 "B".toList = some "${A}".toList :=
  C18.lookupVar_of_set env0 "B".toList "${A}".toList [("A".toList, "va".toList)] [] rfl (by decide)

/-- `C18.project_root_unset`, `C18.other_unset` -/
example : lookupVar env0 "PROJECT_ROOT".toList = some "/w".toList := C18.project_root_unset env0 (by decide)
example : lookupVar env0 "C".toList = none := C18.other_unset env0 "C".toList (by decide) (by decide)

/-- `C18.no_rescan`: the value `${A}` of `B` is not expanded again -/
example : expandEnvVars env0 (refText "B".toList) = "${A}".toList :=
  C18.no_rescan env0 "B".toList "${A}".toList (by decide) (by decide)

/-- `C18.dollar_without_brace` -/
example : expandEnvVars env0 ('$' :: "A${A}".toList) = '$' :: expandEnvVars env0 "A${A}".toList :=
  C18.dollar_without_brace env0 _ (by intro c h; simp at h; subst h; decide)

/-- `C18.unclosed_reference` -/
example : expandEnvVars env0 ('$' :: '{' :: "AB".toList ++ "/${A}".toList) =
    '$' :: '{' :: "AB".toList ++ expandEnvVars env0 "/${A}".toList :=
  C18.unclosed_reference env0 _ _ (by decide) (SafeStart.cons _ (by decide) (by decide) (by decide))

/-- `C18.bad_name` -/
example : expandEnvVars env0 ('$' :: '{' :: "A-b".toList ++ '}' :: "${A}".toList) =
    '$' :: '{' :: "A-b".toList ++ '}' :: expandEnvVars env0 "${A}".toList :=
  C18.bad_name env0 _ _ ⟨'-', by decide, by decide⟩ (by decide) (by decide)

/-- `C18.fuel_suffices` -/
example : expandEnvVarsF env0 50 "x${B}${A}".toList = expandEnvVarsF env0 ("x${B}${A}".toList.length + 1) "x${B}${A}".toList :=
  C18.fuel_suffices env0 50 _ (by decide)
end C18

/-! ## C19 / C19b -/
section C19

deriving instance DecidableEq for Cursor

theorem head_only {o : Option Char} {c : Char} (e : o = some c) : ∀ ch, o = some ch → ch = c := by
  intro ch h; rw [e] at h; exact (Option.some.inj h).symm

-- `archive_rule`: unconditional (iff).  `scheme_not_a_name`, `span_conventions`: closed statements.

/-- `C19.scheme_rule`: trailing control characters after the colon part are trimmed -/
example : splitScheme ("git+https".toList ++ ':' :: "//h/p \t".toList) =
    some ("git+https".toList, ("//h/p \t".toList.reverse.dropWhile schemeCtl).reverse) :=
  C19.scheme_rule "git+https".toList "//h/p \t".toList (by simp)
    (by intro c h; simp at h; subst h; decide) (by decide)

/-- `C19.path_unsupported`, `C19.path_never_accepted`: ` \t./p/é.whl ; m` -/
example (env : ProcEnv) (x : Ext) :
    (parseRequirement env x (" \t".toList ++ '.' :: "/p/é.whl ; m".toList)).fin =
      .err ⟨.unsupported, strLen " \t".toList, strLen (token ('.' :: "/p/é.whl ; m".toList))⟩ :=
  C19.path_unsupported env x " \t".toList '.' "/p/é.whl ; m".toList (by decide) (by decide)
example (env : ProcEnv) (x : Ext) :
    ∀ r, (parseRequirement env x (" \t".toList ++ '.' :: "/p/é.whl ; m".toList)).fin ≠ .ok r :=
  C19.path_never_accepted env x " \t".toList '.' "/p/é.whl ; m".toList (by decide) (by decide)

/-- `C19.scheme_url_unsupported`, `C19.scheme_url_never_accepted`: ` git+https://h/${A}[x] ; os_name=='a'` -/
example (env : ProcEnv) (x : Ext) :
    ∃ e : PErr, (parseRequirement env x (" ".toList ++ "git+https".toList ++ ':' :: "//h/${A}[x] ; os_name=='a'".toList)).fin = .err e ∧
      e.kind = .unsupported ∧ (e.start = 0 ∨ e.start = strLen " ".toList) ∧
      e.start + e.len = strLen " ".toList + strLen (token ("git+https".toList ++ ':' :: "//h/${A}[x] ; os_name=='a'".toList)) :=
  C19.scheme_url_unsupported env x " ".toList "git+https".toList "//h/${A}[x] ; os_name=='a'".toList
    (by decide) (by simp) (by intro c h; simp at h; subst h; decide) (by decide)
example (env : ProcEnv) (x : Ext) :
    ∀ r, (parseRequirement env x (" ".toList ++ "git+https".toList ++ ':' :: "//h/${A}[x] ; os_name=='a'".toList)).fin ≠ .ok r :=
  C19.scheme_url_never_accepted env x " ".toList "git+https".toList "//h/${A}[x] ; os_name=='a'".toList
    (by decide) (by simp) (by intro c h; simp at h; subst h; decide) (by decide)

/-- `C19.relpath_unsupported`, `C19.relpath_never_accepted`: ` a-+é/b c` (first segment `a-` is not a valid
name, `mid = +é`) and `pkg\\sub` (`mid` empty) -/
example (env : ProcEnv) (x : Ext) :
    (parseRequirement env x (" ".toList ++ "a-".toList ++ "+é".toList ++ '/' :: "b c".toList)).fin =
      .err (nameSpan " ".toList "a-".toList ("a-".toList ++ "+é".toList ++ '/' :: "b c".toList)) ∧
    (nameSpan " ".toList "a-".toList ("a-".toList ++ "+é".toList ++ '/' :: "b c".toList)).kind = .unsupported :=
  C19.relpath_unsupported env x " ".toList "a-".toList "+é".toList "b c".toList '/'
    (by decide) (by simp) (by intro c h; simp at h; subst h; decide) (by decide) (by decide) (by decide)
    (by intro c h; simp at h; subst h; decide)
example (env : ProcEnv) (x : Ext) :
    (parseRequirement env x ([] ++ "pkg".toList ++ [] ++ '\\' :: "sub".toList)).fin =
      .err (nameSpan [] "pkg".toList ("pkg".toList ++ [] ++ '\\' :: "sub".toList)) ∧
    (nameSpan [] "pkg".toList ("pkg".toList ++ [] ++ '\\' :: "sub".toList)).kind = .unsupported :=
  C19.relpath_unsupported env x [] "pkg".toList [] "sub".toList '\\'
    (by decide) (by simp) (by intro c h; simp at h; subst h; decide) (by decide) (by decide) (by decide)
    (by intro c h; simp at h)
example (env : ProcEnv) (x : Ext) :
    ∀ r, (parseRequirement env x (" ".toList ++ "a-".toList ++ "+é".toList ++ '/' :: "b c".toList)).fin ≠ .ok r :=
  C19.relpath_never_accepted env x " ".toList "a-".toList "+é".toList "b c".toList '/'
    (by decide) (by simp) (by intro c h; simp at h; subst h; decide) (by decide) (by decide) (by decide)
    (by intro c h; simp at h; subst h; decide)

/-- `C19.archive_name_unsupported`, `C19.archive_name_never_accepted`: ` requests-2.26.0.tar.gz ; os_name=='a'` -/
example (env : ProcEnv) (x : Ext) :
    (parseRequirement env x (" ".toList ++ "requests-2.26.0.tar.gz".toList ++ " ; os_name=='a'".toList)).fin =
      .err ⟨.unsupported, 0, 0⟩ :=
  C19.archive_name_unsupported env x " ".toList "requests-2.26.0.tar.gz".toList " ; os_name=='a'".toList
    (by decide) (by simp) (by intro c h; simp at h; subst h; decide) (by decide) (by decide)
    (head_only (c := ';') (by decide))
example (env : ProcEnv) (x : Ext) :
    ∀ r, (parseRequirement env x (" ".toList ++ "requests-2.26.0.tar.gz".toList ++ " ; os_name=='a'".toList)).fin ≠ .ok r :=
  C19.archive_name_never_accepted env x " ".toList "requests-2.26.0.tar.gz".toList " ; os_name=='a'".toList
    (by decide) (by simp) (by intro c h; simp at h; subst h; decide) (by decide) (by decide)
    (head_only (c := ';') (by decide))

/-- `C19.archive_name_extras_unsupported`: ` a.whl [x,y] ; m` — the `parseExtras` hypothesis holds with the
(normalized) extras `x`, `y` and the cursor after `]` -/
example (env : ProcEnv) (x : Ext) :
    (parseRequirement env x (" ".toList ++ "a.whl".toList ++ " [x,y] ; m".toList)).fin = .err ⟨.unsupported, 0, 0⟩ := by
  have hc : (⟨" ".toList ++ "a.whl".toList ++ " [x,y] ; m".toList, " [x,y] ; m".toList,
        strLen " ".toList + strLen "a.whl".toList⟩ : Cursor).eatWhitespace =
      ⟨" ".toList ++ "a.whl".toList ++ " [x,y] ; m".toList,
        '[' :: joinComma ["x".toList, "y".toList] ++ ']' :: " ; m".toList, 7⟩ := by decide
  refine C19.archive_name_extras_unsupported env x " ".toList "a.whl".toList " [x,y] ; m".toList
    (by decide) (by simp) (by intro c h; simp at h; subst h; decide) (by decide) (by decide)
    (by intro c h; simp at h; subst h; decide)
    (["x".toList, "y".toList].map normName)
    ⟨" ".toList ++ "a.whl".toList ++ " [x,y] ; m".toList, " ; m".toList,
      7 + strLen ('[' :: joinComma ["x".toList, "y".toList] ++ [']'])⟩ ?_ (head_only (c := ';') (by decide))
  rw [hc]
  exact parseExtras_printed "x".toList ["y".toList]
    (by intro e h; simp at h; rcases h with rfl | rfl <;> exact nameOk_wf (by decide)) _ _ _
    ⟨" a.whl ".toList, by decide, by decide⟩

/-! ### C19b -/

-- `unnamed_no_panic`, `rule_is_first_stop`, `url_semicolon_comment`, `call_span`, `bracket_ambiguity`,
-- `old_requirement_end`: unconditional / closed statements.

/-- `C19.unnamed_err_boundary`: the F22 input, error at byte 4 -/
example (env : ProcEnv) (x : Ext) : Boundary C19.f22Input 4 :=
  C19.unnamed_err_boundary env x C19.f22Input ⟨.string, 4, 1⟩ (C19.old_requirement_end env x).2.2.2

/-- the accepted input ` \t./p/é.whl;[x,y-z]` (the URL text ends with `;`) -/
theorem unnamed_acc (env : ProcEnv) (x : Ext) :
    parseUnnamed env x (" \t".toList ++ (("./p/é.whl;".toList ++ extrasTxt ["x".toList, "y-z".toList]) ++ markerTxt none)) =
      ⟨some (unnamedCall env "./p/é.whl;".toList (strLen " \t".toList)
          (strLen ("./p/é.whl;".toList ++ extrasTxt ["x".toList, "y-z".toList]))),
        .ok ⟨"./p/é.whl;".toList, ["x".toList, "y-z".toList].map normName, .leaf true, []⟩⟩ :=
  C19.accepts env x " \t".toList "./p/é.whl;".toList ["x".toList, "y-z".toList] (by decide) (by simp) (by decide)
    (by intro e h; simp at h; rcases h with rfl | rfl <;> exact nameOk_wf (by decide))

/-- `C19.unnamed_call_span` -/
example (env : ProcEnv) (x : Ext) : ∃ (call : UCall) (tok : List Char),
    Boundary (" \t".toList ++ (("./p/é.whl;".toList ++ extrasTxt ["x".toList, "y-z".toList]) ++ markerTxt none)) call.start ∧
    sliceBytes (" \t".toList ++ (("./p/é.whl;".toList ++ extrasTxt ["x".toList, "y-z".toList]) ++ markerTxt none))
      call.start call.len = some tok ∧ tok ≠ [] := by
  obtain ⟨hb, tok, hs, hne⟩ := C19.unnamed_call_span env x _ _ (congrArg UOut.call (unnamed_acc env x))
  exact ⟨_, tok, hb, hs, hne⟩

/-- a cursor (satisfying `Inv`) after a two-byte char, in front of ` ./p[x, y] ; m` -/
def cUn : Cursor := ⟨"é ./p[x, y] ; m".toList, " ./p[x, y] ; m".toList, 2⟩
theorem cUn_inv : cUn.Inv := ⟨"é".toList, by decide, by decide⟩

/-- `C19.unnamed_url_total` -/
example (env : ProcEnv) :
    match parseUnnamedUrl env cUn with
    | .ok ((call, given, _, reqEnd), c') => Adv cUn c' ∧ Boundary cUn.input call.start ∧
        reqEnd = call.start + call.len ∧ call.start = cUn.eatWhitespace.pos ∧
        ∃ tok, sliceBytes cUn.input call.start call.len = some tok ∧ tok ≠ [] ∧
          (given = tok ∨ ∃ a, tok = given ++ '[' :: (a ++ [']']))
    | .err e => Boundary cUn.input e.start
    | .panic _ => False :=
  C19.unnamed_url_total env cUn_inv

/-- `C19.scan_is_rule` (the unnamed scan), `C19.parse_unnamed_url_is_rule` -/
example : unnamedScan 30 cUn.eatWhitespace 0 0 =
    (0 + strLen (unnamedEnd 0 cUn.eatWhitespace.rest).1,
     urlAfter cUn.eatWhitespace ((unnamedEnd 0 cUn.eatWhitespace.rest).1.length +
       (unnamedEnd 0 cUn.eatWhitespace.rest).2.length)) :=
  C19.scan_is_rule 30 cUn.eatWhitespace 0 0 (by decide)
example : unnamedEnd 0 cUn.eatWhitespace.rest = ("./p[x, y]".toList, [' ']) := by decide
example (env : ProcEnv) : parseUnnamedUrl env cUn =
    unnamedPre env cUn.eatWhitespace.pos (unnamedEnd 0 cUn.eatWhitespace.rest).1
      (urlAfter cUn.eatWhitespace ((unnamedEnd 0 cUn.eatWhitespace.rest).1.length +
        (unnamedEnd 0 cUn.eatWhitespace.rest).2.length)) :=
  C19.parse_unnamed_url_is_rule env cUn_inv

/-- `C19.token_no_ws`: second disjunct of `hM` (something follows the token) -/
example : unnamedEnd 0 ("./p[x]".toList ++ " \t; m".toList) = ("./p[x]".toList, " \t; m".toList.take 1) :=
  C19.token_no_ws "./p[x]".toList " \t; m".toList (by decide)
    (.inr ⟨' ', "\t; m".toList, rfl, by decide, by decide, by decide, by decide⟩)

/-- `C19.token_bracketed_ws`: whitespace inside the brackets, a separator after them -/
example : unnamedEnd 0 ("a[b ;c]".toList ++ " ; m".toList) = ("a[b ;c]".toList, " ; m".toList.take 1) :=
  C19.token_bracketed_ws 0 "a[b ;c]".toList " ; m".toList (by decide)
    (.inr ⟨' ', "; m".toList, rfl, .inr ⟨by decide, by decide⟩⟩)
    (fun _ _ => ⟨by decide, by decide⟩)
/-- … and from inside a bracket group (`d = 1`), ended by a line break -/
example : unnamedEnd 1 ("b ;c".toList ++ "\nx".toList) = ("b ;c".toList, "\nx".toList.take 1) :=
  C19.token_bracketed_ws 1 "b ;c".toList "\nx".toList (by decide)
    (.inr ⟨'\n', "x".toList, rfl, .inl (by decide)⟩)
    (fun _ h => absurd h (by decide))

/-- `C19.ws_in_brackets` -/
example : unnamedEnd (0 + 1) ('\t' :: "x] ;m".toList) =
    ('\t' :: (unnamedEnd (0 + 1) "x] ;m".toList).1, (unnamedEnd (0 + 1) "x] ;m".toList).2) :=
  C19.ws_in_brackets 0 '\t' "x] ;m".toList (by decide) (by decide)

-- `C19.accepts`: `unnamed_acc` above.  `C19.accepts_marker`: already witnessed in the file.

/-- `C19.url_semicolon_marker`: its marker hypothesis is satisfiable (`m := os_name=='a'`, `x := x0`) -/
example (env : ProcEnv) : ∃ tree warns,
    parseUnnamed env x0 ("u; ; ".toList ++ "os_name=='a'".toList) =
      ⟨some ⟨.path, "u;".toList, 0, 2⟩, .ok ⟨"u;".toList, [], tree, warns⟩⟩ := by
  obtain ⟨st, h⟩ := res_ok
    (parseMarkersCursor x0 (4 * ("u; ; ".toList ++ "os_name=='a'".toList).length + 16)
      ⟨"u; ; ".toList ++ "os_name=='a'".toList, "os_name=='a'".toList, 5⟩) (by decide)
  exact ⟨_, _, C19.url_semicolon_marker env x0 _ st h⟩

/-- `C19.call_no_scheme`, `C19.call_file`, `C19.call_known_scheme`, `C19.call_unknown_scheme` (with `${A}`
expanded to `va` first) -/
example : unnamedCall env0 "./p/${A}".toList 3 8 = ⟨.path, expandEnvVars env0 "./p/${A}".toList, 3, 8⟩ :=
  C19.call_no_scheme env0 _ 3 8 (by decide)
example : unnamedCall env0 "file:///${A}/x".toList 3 14 = ⟨.file, "///va/x".toList, 3, 14⟩ :=
  C19.call_file env0 _ _ 3 14 (by decide)
example : unnamedCall env0 "git+https://h/${A}".toList 0 18 =
    ⟨.url, expandEnvVars env0 "git+https://h/${A}".toList, 0, 18⟩ :=
  C19.call_known_scheme env0 _ "git+https".toList "//h/va".toList 0 18 (by decide) (by decide) (by decide)
example : unnamedCall env0 "c:/${A}".toList 0 7 = ⟨.path, expandEnvVars env0 "c:/${A}".toList, 0, 7⟩ :=
  C19.call_unknown_scheme env0 _ "c".toList "/va".toList 0 7 (by decide) (by decide)

/-- `C19.printed_form` -/
example : showUnnamed "./p/a.whl".toList ["x".toList, "y".toList] (some "os_name=='a'".toList) =
    ("./p/a.whl".toList ++ extrasTxt ["x".toList, "y".toList]) ++ markerTxt (some "os_name=='a'".toList) :=
  C19.printed_form _ _ _ (by decide)

/-- `C19.roundtrip` (the unnamed one) -/
example (env : ProcEnv) (x : Ext) :
    parseUnnamed env x (showUnnamed "./p/é.whl;".toList ["x".toList, "y-z".toList] none) =
      ⟨some (unnamedCall env "./p/é.whl;".toList 0 (strLen ("./p/é.whl;".toList ++ extrasTxt ["x".toList, "y-z".toList]))),
        .ok ⟨"./p/é.whl;".toList, ["x".toList, "y-z".toList].map normName, .leaf true, []⟩⟩ :=
  C19.roundtrip env x "./p/é.whl;".toList ["x".toList, "y-z".toList] (by simp) (by decide)
    (by intro e h; simp at h; rcases h with rfl | rfl <;> exact nameOk_wf (by decide))

/-- `C19.roundtrip_marker`, `C19.marker_cursor` (the unnamed ones): `./p/a.whl[x,y] ; os_name=='a'` -/
example (env : ProcEnv) : ∃ st : PState,
    parseUnnamed env x0 (showUnnamed "./p/a.whl".toList ["x".toList, "y".toList] (some "os_name=='a'".toList)) =
      ⟨some (unnamedCall env "./p/a.whl".toList 0 (strLen ("./p/a.whl".toList ++ extrasTxt ["x".toList, "y".toList]))),
        .ok ⟨"./p/a.whl".toList, ["x".toList, "y".toList].map normName, st.tree.getD (.leaf true), st.warns⟩⟩ := by
  obtain ⟨st, h⟩ := res_ok
    (parseMarkersCursor x0
      (4 * (showUnnamed "./p/a.whl".toList ["x".toList, "y".toList] (some "os_name=='a'".toList)).length + 16)
      ⟨showUnnamed "./p/a.whl".toList ["x".toList, "y".toList] (some "os_name=='a'".toList), "os_name=='a'".toList,
        strLen ("./p/a.whl".toList ++ extrasTxt ["x".toList, "y".toList]) + 3⟩) (by decide)
  exact ⟨st, C19.roundtrip_marker env x0 _ _ _ (by simp) (by decide)
    (by intro e h; simp at h; rcases h with rfl | rfl <;> exact nameOk_wf (by decide)) st h⟩
example : Cursor.Inv ⟨showUnnamed "./p/a.whl".toList ["x".toList, "y".toList] (some "os_name=='a'".toList),
    "os_name=='a'".toList, strLen ("./p/a.whl".toList ++ extrasTxt ["x".toList, "y".toList]) + 3⟩ :=
  C19.marker_cursor _ _ _ (by decide)
end C19

/-! ## axioms of the named witnesses -/
#print axioms r4_marker_ok
#print axioms u1_marker_ok
#print axioms urlEnds_instance
#print axioms urlEndsOk_instance
#print axioms unnamed_acc
#print axioms badMarker_err

end Pep508.NonVacuityC
