/-
C01 — marker evaluation equals the PEP 508 meaning of the source text.

The chain proved here, each link for ALL inputs:
 (a) every single comparison means what PEP 440 / PEP 508 say (`Spec.specSem`, `Spec.strSem`,
     substring tests and extras as their own variables): `expr_*` below; python_version is C10;
 (b) and / or are pointwise (C02) — so any and/or/parenthesis skeleton over those comparisons
     evaluates to the boolean combination (`eval_build`);
 (c) the typed dispatch yields the same expression for both operand orders (operator inversion),
     the parser never panics and either returns an error with a well-placed span or a diagram
     (`parseMarkers_total`); quote style is irrelevant because the value is the slice between quotes;
 (d) deprecated key spellings are distinct variables reading the same environment field (a
     property of the environment `ρ` supplied by the harness: `get_string`).
The statement "for every layout of a derivation the parser returns the marker of the derivation"
(whitespace, redundant parentheses) is tied to the code by the derivation × layout oracle in the
harness and the parser correspondence; it is not a Lean theorem (see level_note).
-/
import Pep508.Proofs.ExprStr
import Pep508.Proofs.ParseFuel
import Pep508.Proofs.Dispatch
import Pep508.Theorems.C02
namespace Pep508.C01
open Pep508 Pep508.Spec

/-- version keys other than python_version: PEP 440 release-segment comparison, all operators -/
theorem expr_version (ρ : Env VarR VarB Val) (k : VKey) (s : Pep508.Spec) (c : List Nat)
    (hk : k ≠ .pyVer) (hw : Spec.wellFormed s) (hρ : ρ.rv (.ver k) = candVal c) :
    (expression (.version k s)).eval ρ = specSem s.op s.rel c :=
  eval_expression_version ρ k s c hk hw hρ

/-- whitespace-separated `in` / `not in` lists: membership by PEP 440 `==` -/
theorem expr_version_in (ρ : Env VarR VarB Val) (k : VKey) (vs : List (List Nat)) (neg : Bool)
    (c : List Nat) (hk : k ≠ .pyVer) (hρ : ρ.rv (.ver k) = candVal c) :
    (expression (.versionIn k vs neg)).eval ρ = (neg != vs.any (fun v => cmpRel c v == .eq)) :=
  eval_expression_versionIn ρ k vs neg c hk hρ

/-- string keys: equality and code-point order -/
theorem expr_string (ρ : Env VarR VarB Val) (k : SKey) (op : SOp) (s v : String)
    (hop : op = .eq ∨ op = .ne ∨ op = .gt ∨ op = .ge ∨ op = .lt ∨ op = .le)
    (hρ : ρ.rv (.str k) = .str s) :
    (expression (.string k op v)).eval ρ = strSem op s v :=
  eval_expression_string ρ k op s v hop hρ

/-- substring containment in either operand order: the value of that test's own variable -/
theorem expr_in (ρ : Env VarR VarB Val) (k : SKey) (v : String) :
    (expression (.string k .isIn v)).eval ρ = ρ.bv (.isIn k v) := eval_expression_isIn ρ k v
theorem expr_not_in (ρ : Env VarR VarB Val) (k : SKey) (v : String) :
    (expression (.string k .notIn v)).eval ρ = !ρ.bv (.isIn k v) := eval_expression_notIn ρ k v
theorem expr_contains (ρ : Env VarR VarB Val) (k : SKey) (v : String) :
    (expression (.string k .contains v)).eval ρ = ρ.bv (.contains k v) := eval_expression_contains ρ k v
theorem expr_not_contains (ρ : Env VarR VarB Val) (k : SKey) (v : String) :
    (expression (.string k .notContains v)).eval ρ = !ρ.bv (.contains k v) := eval_expression_notContains ρ k v

/-- extra: membership variable of the (normalized) name -/
theorem expr_extra (ρ : Env VarR VarB Val) (neg : Bool) (name : ExtraVal) :
    (expression (.extra neg name)).eval ρ = (ρ.bv (.extra name) != neg) := eval_expression_extra ρ neg name

/-- every expression diagram is well-formed, hence admissible for C02's `eval_build`:
    and/or/parentheses are boolean connectives over the comparisons -/
theorem expr_wf (e : MExpr) : (expression e).wf = true := wf_expression e

theorem skeleton (ρ : Env VarR VarB Val) {n : Nat} (atoms : Fin n → MExpr) (sk : C02.BExp n) :
    (sk.build (fun i => expression (atoms i))).eval ρ =
      sk.sem (fun i => (expression (atoms i)).eval ρ) :=
  (C02.eval_build ρ _ (fun i => Tree.OK_of_wf _ (wf_expression (atoms i))) sk).2

/-- the marker parser is total: a diagram, or an error whose span starts on a char boundary -/
theorem parse_total (x : Ext) (input : List Char) :
    (∃ t w, parseMarkers x input = .ok (t, w)) ∨
    (∃ e, parseMarkers x input = .err e ∧ Boundary input e.start) := parseMarkers_total x input

/-- operand order does not matter for string keys: `'v' OP key` dispatches to `key OP⁻¹ 'v'` -/
theorem inverted_string (x : Ext) (k : SKey) (op : MOp) (v : List Char) (h : op ≠ .tilde) :
    ∃ sop, op.invert.toSOp = some sop ∧
      dispatch x (.quoted v) op (.strKey k) = (some (.string k sop (String.ofList v)), []) :=
  dispatch_quoted_strKey x k op v h

end Pep508.C01
