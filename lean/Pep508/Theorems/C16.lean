/-
C16 — `Ord for MarkerTree` is a lawful total order consistent with `==`.

Model: `Tree.cmp` / `Edges.cmp` in `Pep508.Model.Kind` (derived `Ord` on `MarkerTreeKind`, the
hand-written `Ord` of the node views, `cmp_bounds_start` / `cmp_bounds_end` / `Ranges: Ord` of
`version-ranges`).  The statements hold for ALL trees (no well-formedness hypothesis), over
arbitrary linear orders of values and variables.
-/
import Pep508.Proofs.OrdLawful
set_option linter.unusedSectionVars false
namespace Pep508.C16
open Pep508
variable {νr νb α : Type}
variable [LT α] [LE α] [Std.IsLinearOrder α] [Std.LawfulOrderLT α] [DecidableLT α] [DecidableEq α]
variable [LT νr] [LE νr] [Std.IsLinearOrder νr] [Std.LawfulOrderLT νr] [DecidableLT νr] [DecidableEq νr]
variable [LT νb] [LE νb] [Std.IsLinearOrder νb] [Std.LawfulOrderLT νb] [DecidableLT νb] [DecidableEq νb]

/-- `Ordering::Equal` exactly for equal markers -/
theorem cmp_eq_iff (x y : Tree νr νb α) : x.cmp y = .eq ↔ x = y := Tree.cmp_eq_iff x y

/-- … i.e. `cmp` is consistent with `==` (`PartialEq`) -/
theorem cmp_eq_iff_beq (x y : Tree νr νb α) : x.cmp y = .eq ↔ (x == y) = true :=
  Tree.cmp_eq_iff_beq x y

/-- antisymmetry of the comparison: `b.cmp(a) == a.cmp(b).reverse()` -/
theorem cmp_swap (x y : Tree νr νb α) : y.cmp x = (x.cmp y).swap := Tree.cmp_swap x y

/-- transitivity of `<` -/
theorem cmp_trans (x y z : Tree νr νb α) : x.cmp y = .lt → y.cmp z = .lt → x.cmp z = .lt :=
  Tree.cmp_trans x y z

/-- transitivity of `≤` -/
theorem cmp_trans_le (x y z : Tree νr νb α) : x.cmp y ≠ .gt → y.cmp z ≠ .gt → x.cmp z ≠ .gt :=
  Tree.cmp_trans_le x y z

/-- totality -/
theorem cmp_total (x y : Tree νr νb α) : x.cmp y = .lt ∨ x = y ∨ y.cmp x = .lt :=
  Tree.cmp_total x y

/-- sorted output is reproducible: a `cmp`-sorted list is determined by its multiset of elements -/
theorem sorted_unique (l₁ l₂ : List (Tree νr νb α)) (hp : l₁.Perm l₂)
    (h₁ : l₁.Pairwise (fun x y => x.cmp y ≠ .gt)) (h₂ : l₂.Pairwise (fun x y => x.cmp y ≠ .gt)) :
    l₁ = l₂ := Tree.sorted_unique l₁ l₂ hp h₁ h₂

/-- … and a sorted, deduplicated list by its set of elements -/
theorem strictSorted_unique (l₁ l₂ : List (Tree νr νb α)) (hp : ∀ x, x ∈ l₁ ↔ x ∈ l₂)
    (h₁ : l₁.Pairwise (fun x y => x.cmp y = .lt)) (h₂ : l₂.Pairwise (fun x y => x.cmp y = .lt)) :
    l₁ = l₂ := Tree.strictSorted_unique l₁ l₂ hp h₁ h₂

end Pep508.C16
