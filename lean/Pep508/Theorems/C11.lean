/-
C11 — extras: matching, simplify_extras, with_extra_marker.

`Tree.restrict f` models `InternerGuard::restrict` (after F15: the chosen child keeps being
restricted); `simplify_extras(E)` is `restrict f` with `f (extra e) = some true` for `e ∈ E`
and `none` elsewhere.
-/
import Pep508.Proofs.Unary
import Pep508.Theorems.C02
import Pep508.Model.Marker
set_option linter.unusedSectionVars false
namespace Pep508.C11
open Pep508
variable {νr νb α : Type}
variable [LT α] [LE α] [Std.IsLinearOrder α] [Std.LawfulOrderLT α] [DecidableLT α] [DecidableEq α]
variable [LT νr] [LE νr] [Std.IsLinearOrder νr] [Std.LawfulOrderLT νr] [DecidableLT νr] [DecidableEq νr]
variable [LT νb] [LE νb] [Std.IsLinearOrder νb] [Std.LawfulOrderLT νb] [DecidableLT νb] [DecidableEq νb]

/-- `simplify_extras(E)` evaluates on `S` as the original does on `S ∪ E`: restricting by `f`
    is evaluating in the environment overridden by `f` -/
theorem restrict_eval (f : νb → Option Bool) (t : Tree νr νb α) (ht : t.wf = true) (ρ : Env νr νb α) :
    (t.restrict f).eval ρ = t.eval (ρ.override f) :=
  eval_restrict f t (Tree.OK_of_wf t ht) ρ

/-- the result no longer depends on any restricted variable — for every marker, including
    several restricted extras co-occurring on one path -/
theorem restrict_independent (f : νb → Option Bool) (t : Tree νr νb α) (v : νb)
    (hv : (f v).isSome = true) : (t.restrict f).mentionsB v = false :=
  restrict_mentionsB f t v hv

/-- a diagram that does not mention `w` does not depend on it -/
theorem not_mentioned_irrelevant (t : Tree νr νb α) (w : νb) (h : t.mentionsB w = false)
    (ρ ρ' : Env νr νb α) (hr : ρ.rv = ρ'.rv) (hb : ∀ v, v ≠ w → ρ.bv v = ρ'.bv v) :
    t.eval ρ = t.eval ρ' := Tree.eval_of_not_mentionsB w ρ ρ' hr hb t h

/-- `with_extra_marker(e)`: the old marker AND `extra == e` (over any variable/value types:
    `extra == e` is the boolean node of that extra's variable) -/
theorem with_extra_marker_eval (m : Tree νr νb α) (hm : m.OK) (xv : νb) (ρ : Env νr νb α) :
    (Tree.and m (.bool xv (.leaf true) (.leaf false))).eval ρ = (m.eval ρ && ρ.bv xv) := by
  rw [C02.eval_and ρ m _ hm (by simp [Tree.OK])]
  simp only [Tree.eval]
  cases ρ.bv xv <;> simp

/-- `extra == 'N'` / `extra != 'N'`: the value of the extra's variable, resp. its negation -/
theorem extra_expr_eval (neg : Bool) (name : ExtraVal) (ρ : Env VarR VarB Val) :
    (expression (.extra neg name)).eval ρ = (ρ.bv (.extra name) != neg) := by
  cases neg <;> simp [expression, boolNode, Tree.eval] <;> cases ρ.bv (.extra name) <;> rfl

end Pep508.C11
