/-
C13 — environment-free evaluation is a sound over-approximation.

`Tree.evalExtras ex` models `evaluate_extras` / `evaluate_optional_environment(None, …)` /
`evaluate_extras_and_python_version` (which, after the `python_version → python_full_version`
rewrite, never meets a `python_version` node and therefore behaves as `evaluate_extras`):
`ex v = some b` fixes the extra variables, every other variable is left open.
-/
import Pep508.Proofs.Unary
set_option linter.unusedSectionVars false
namespace Pep508.C13
open Pep508
variable {νr νb α : Type}
variable [LT α] [LE α] [Std.IsLinearOrder α] [Std.LawfulOrderLT α] [DecidableLT α] [DecidableEq α]
variable [LT νr] [LE νr] [Std.IsLinearOrder νr] [Std.LawfulOrderLT νr] [DecidableLT νr] [DecidableEq νr]
variable [LT νb] [LE νb] [Std.IsLinearOrder νb] [Std.LawfulOrderLT νb] [DecidableLT νb] [DecidableEq νb]

/-- whenever some environment with the given extras satisfies the marker, the answer is `true`
    (no well-formedness needed) -/
theorem evaluate_extras_sound (ex : νb → Option Bool) (t : Tree νr νb α)
    (h : ∃ ρ : Env νr νb α, (∀ v b, ex v = some b → ρ.bv v = b) ∧ t.eval ρ = true) :
    t.evalExtras ex = true := by
  obtain ⟨ρ, hρ, ht⟩ := h
  exact evalExtras_sound ex t ρ hρ ht

/-- contrapositive: `false` only when no such environment exists -/
theorem evaluate_extras_false (ex : νb → Option Bool) (t : Tree νr νb α) (h : t.evalExtras ex = false)
    (ρ : Env νr νb α) (hρ : ∀ v b, ex v = some b → ρ.bv v = b) : t.eval ρ = false := by
  cases ht : t.eval ρ with
  | false => rfl
  | true => have := evalExtras_sound ex t ρ hρ ht; simp [h] at this

example : C02.exB.evalExtras (fun _ => some false) = false := by decide
example : C02.exB.evalExtras (fun _ => none) = true := by decide

end Pep508.C13
