/-
C14b — "results do not depend on what the process did before", for the operations of the interner
other than `and` / `or` / `create_node` (those are C14.lean).

`restrictI f` (Model/InternerOps.lean) is `InternerGuard::restrict` on ids, as used by
`simplify_extras`: terminals stay, a boolean node whose variable `f` fixes is replaced by the
restriction of the chosen child (complement bit of the parent resolved), every other node is
rebuilt bottom-up through `create_node`.  The UNMODIFIED code has no memo table.  Under `IState.Inv`:
 * `restrictI f` denotes `Tree.restrict f` of the operand's diagram whatever the arena and the AND
   memo contain and whatever was restricted before with whatever predicates (`restrict_refines`);
   it leaves the AND memo alone (`restrict_cache_untouched`);
 * two interners with different histories give results with the same diagram
   (`restrict_history_independent`); in a later state of the same interner the very same id comes
   back (`restrict_same_id_later`);
 * negation and `is_disjoint` are read-only and are functions of the diagrams
   (`not_refines`, `is_disjoint_refines`, `is_disjoint_history_independent`);
 * the C15 schedule model extended with `restrict` steps (`Step'`, `runSchedule'`, `Schedulable'`):
   `schedule_inv'`, `step_result_independent_of_interleaving'`, `racing_threads_same_id'`.
NEGATIVE result (the seeded bug): with a `restrict` memo keyed by the node id alone
(`restrictMemoI`) none of this holds — `seeded_bug_not_refines`, `seeded_bug_history_dependent`:
on a reachable state, with invariant, valid operand and enough fuel, the returned id denotes a
diagram different from `Tree.restrict f`; so `restrict_refines` is not true of any implementation.
The defect is exactly the sharing of entries between predicates: `seeded_bug_memo_sound_for_one_predicate`,
`seeded_bug_repair` (a table started empty for each top-level call is sound).
`simplify_python_versions` / `complexify_python_versions` on ids: Theorems/C14c.lean.
-/
import Pep508.Proofs.InternerOps
import Pep508.Theorems.C15
set_option linter.unusedSectionVars false
namespace Pep508.C14
open Pep508
variable {νr νb α : Type}
variable [LT α] [DecidableLT α] [DecidableEq α]
variable [LT νr] [DecidableLT νr] [DecidableEq νr] [LT νb] [DecidableLT νb] [DecidableEq νb]

/-- the id-level `restrict` (hash-consing, complemented edges, no memo) refines `Tree.restrict` -/
theorem restrict_refines (f : νb → Option Bool) (n : Nat) (s : IState νr νb α) (x : Id) (hs : s.Inv)
    (vx : Id.Valid s x) (hn : (den s x).size ≤ n) :
    (restrictI f n s x).1.Inv ∧ s.Le (restrictI f n s x).1 ∧
      Id.Valid (restrictI f n s x).1 (restrictI f n s x).2 ∧
      den (restrictI f n s x).1 (restrictI f n s x).2 = (den s x).restrict f :=
  restrictI_refines f n s x hs vx hn

theorem restrict_cache_untouched (f : νb → Option Bool) (n : Nat) (s : IState νr νb α) (x : Id) :
    (restrictI f n s x).1.cache = s.cache := restrictI_cache f n s x

/-- two arenas with arbitrary histories in which `x₁`, `x₂` denote the same diagram: the results
    denote the same diagram — whatever was restricted before, with whatever predicates -/
theorem restrict_history_independent (f : νb → Option Bool) (n₁ n₂ : Nat) (s₁ s₂ : IState νr νb α)
    (x₁ x₂ : Id) (h₁ : s₁.Inv) (h₂ : s₂.Inv) (vx₁ : Id.Valid s₁ x₁) (vx₂ : Id.Valid s₂ x₂)
    (hx : den s₁ x₁ = den s₂ x₂) (hn₁ : (den s₁ x₁).size ≤ n₁) (hn₂ : (den s₂ x₂).size ≤ n₂) :
    den (restrictI f n₁ s₁ x₁).1 (restrictI f n₁ s₁ x₁).2 =
      den (restrictI f n₂ s₂ x₂).1 (restrictI f n₂ s₂ x₂).2 :=
  restrictI_history_independent f n₁ n₂ s₁ s₂ x₁ x₂ h₁ h₂ vx₁ vx₂ hx hn₁ hn₂

/-- the same arena grown (by anything): the same id comes out -/
theorem restrict_same_id_later (f : νb → Option Bool) (n m : Nat) (s s' : IState νr νb α) (x : Id)
    (hs : s.Inv) (hs' : s'.Inv) (vx : Id.Valid s x) (hle : (restrictI f n s x).1.Le s')
    (hn : (den s x).size ≤ n) (hm : (den s x).size ≤ m) :
    (restrictI f m s' x).2 = (restrictI f n s x).2 :=
  restrictI_same_id f n m s s' x hs hs' vx hle hn hm

/-- restricting by `f` and then by `g` in the interner is restricting the diagram by `f` then `g` -/
theorem restrict_twice (f g : νb → Option Bool) (n m : Nat) (s : IState νr νb α) (x : Id) (hs : s.Inv)
    (vx : Id.Valid s x) (hn : (den s x).size ≤ n) (hm : ((den s x).restrict f).size ≤ m) :
    den (restrictI g m (restrictI f n s x).1 (restrictI f n s x).2).1
        (restrictI g m (restrictI f n s x).1 (restrictI f n s x).2).2 =
      ((den s x).restrict f).restrict g := by
  obtain ⟨i1, _, v1, d1⟩ := restrictI_refines f n s x hs vx hn
  rw [(restrictI_refines g m _ _ i1 v1 (by rw [d1]; exact hm)).2.2.2, d1]

/-- negation: no state change (needs no invariant: it only flips the complement bit) -/
theorem not_refines (s : IState νr νb α) (x : Id) (vx : Id.Valid s x) :
    (notI s x).1 = s ∧ Id.Valid s (notI s x).2 ∧ den s (notI s x).2 = (den s x).not :=
  ⟨rfl, (Id.valid_not s x).mpr vx, den_not s x⟩

/-- `is_disjoint` on ids is `is_disjoint` on diagrams, at every fuel (it is read-only) -/
theorem is_disjoint_refines (n : Nat) (s : IState νr νb α) (x y : Id) (hs : s.Inv)
    (vx : Id.Valid s x) (vy : Id.Valid s y) :
    isDisjointI n s x y = isDisjointF n (den s x) (den s y) := isDisjointI_refines n s x y hs vx vy

theorem is_disjoint_refines_tree (s : IState νr νb α) (x y : Id) (hs : s.Inv)
    (vx : Id.Valid s x) (vy : Id.Valid s y) :
    isDisjointI ((den s x).size + (den s y).size + 1) s x y = Tree.isDisjoint (den s x) (den s y) :=
  isDisjointI_refines_tree s x y hs vx vy

theorem is_disjoint_history_independent (n : Nat) (s₁ s₂ : IState νr νb α) (x₁ y₁ x₂ y₂ : Id)
    (h₁ : s₁.Inv) (h₂ : s₂.Inv)
    (vx₁ : Id.Valid s₁ x₁) (vy₁ : Id.Valid s₁ y₁) (vx₂ : Id.Valid s₂ x₂) (vy₂ : Id.Valid s₂ y₂)
    (hx : den s₁ x₁ = den s₂ x₂) (hy : den s₁ y₁ = den s₂ y₂) :
    isDisjointI n s₁ x₁ y₁ = isDisjointI n s₂ x₂ y₂ :=
  isDisjointI_history_independent n s₁ s₂ x₁ y₁ x₂ y₂ h₁ h₂ vx₁ vy₁ vx₂ vy₂ hx hy

/-- **the seeded bug is caught**: the refinement statement is false for `restrict` with a memo
    keyed by the id alone (on a state reached by ONE earlier `restrict` with another predicate) -/
theorem seeded_bug_not_refines :
    ¬ ∀ (m : MState Nat Nat Nat), MReach m → ∀ (f : Nat → Option Bool) (n : Nat) (x : Id), m.st.Inv →
        Id.Valid m.st x → (den m.st x).size ≤ n →
        den (restrictMemoI f n m x).1.st (restrictMemoI f n m x).2 = (den m.st x).restrict f :=
  BugWitness.restrictMemoI_not_refines

theorem seeded_bug_history_dependent :
    ¬ ∀ (m m' : MState Nat Nat Nat), MReach m → MReach m' → m.st = m'.st →
        ∀ (f : Nat → Option Bool) (n : Nat) (x : Id), Id.Valid m.st x → (den m.st x).size ≤ n →
        den (restrictMemoI f n m x).1.st (restrictMemoI f n m x).2 =
          den (restrictMemoI f n m' x).1.st (restrictMemoI f n m' x).2 :=
  BugWitness.restrictMemoI_history_dependent

/-- … and what exactly is wrong with it: the table is sound as long as all its entries were made with
    the predicate of the current call (`MemoOK f`) … -/
theorem seeded_bug_memo_sound_for_one_predicate (f : νb → Option Bool) (n : Nat) (m : MState νr νb α)
    (x : Id) (hm : MemoOK f m) (vx : Id.Valid m.st x) (hn : (den m.st x).size ≤ n) :
    MemoOK f (restrictMemoI f n m x).1 ∧ m.st.Le (restrictMemoI f n m x).1.st ∧
      Id.Valid (restrictMemoI f n m x).1.st (restrictMemoI f n m x).2 ∧
      den (restrictMemoI f n m x).1.st (restrictMemoI f n m x).2 = (den m.st x).restrict f :=
  restrictMemoI_spec f n m x hm vx hn

/-- … so the repair is a table per top-level call (or a key `(f, id)`): started EMPTY, the memoised
    `restrict` refines `Tree.restrict` on every interner state -/
theorem seeded_bug_repair (f : νb → Option Bool) (n : Nat) (s : IState νr νb α) (x : Id)
    (hs : s.Inv) (vx : Id.Valid s x) (hn : (den s x).size ≤ n) :
    (restrictMemoI f n ⟨s, []⟩ x).1.st.Inv ∧ s.Le (restrictMemoI f n ⟨s, []⟩ x).1.st ∧
      Id.Valid (restrictMemoI f n ⟨s, []⟩ x).1.st (restrictMemoI f n ⟨s, []⟩ x).2 ∧
      den (restrictMemoI f n ⟨s, []⟩ x).1.st (restrictMemoI f n ⟨s, []⟩ x).2 = (den s x).restrict f :=
  restrictMemoI_fresh_refines f n s x hs vx hn

end Pep508.C14

/-! ## C15 extended: schedules mixing `and` and `restrict` steps -/
namespace Pep508.C15
open Pep508
variable {νr νb α : Type}
variable [LT α] [DecidableLT α] [DecidableEq α]
variable [LT νr] [DecidableLT νr] [DecidableEq νr] [LT νb] [DecidableLT νb] [DecidableEq νb]

/-- one atomic step by some thread (the interner mutex is held for the whole recursion):
    a conjunction, or a `restrict` with the thread's own predicate -/
inductive Step' (νb : Type) where
  | and (x y : Id) (fuel : Nat)
  | restrict (f : νb → Option Bool) (x : Id) (fuel : Nat)

/-- `StepR f x n` -/
abbrev StepR (f : νb → Option Bool) (x : Id) (n : Nat) : Step' νb := .restrict f x n

def Step'.run (s : IState νr νb α) : Step' νb → IState νr νb α × Id
  | .and x y n => andI n s x y
  | .restrict f x n => restrictI f n s x

/-- operands valid, fuel sufficient -/
def Step'.Ok (s : IState νr νb α) : Step' νb → Prop
  | .and x y n => Id.Valid s x ∧ Id.Valid s y ∧ (den s x).size + (den s y).size < n
  | .restrict _ x n => Id.Valid s x ∧ (den s x).size ≤ n

/-- what the step computes, on diagrams -/
def Step'.spec (s : IState νr νb α) : Step' νb → Tree νr νb α
  | .and x y _ => Tree.and (den s x) (den s y)
  | .restrict f x _ => (den s x).restrict f

def Step'.ofStep : Step → Step' νb
  | ⟨x, y, n⟩ => .and x y n

def runSchedule' : IState νr νb α → List (Step' νb) → IState νr νb α
  | s, [] => s
  | s, st :: rest => runSchedule' (st.run s).1 rest

def Schedulable' : IState νr νb α → List (Step' νb) → Prop
  | _, [] => True
  | s, st :: rest => st.Ok s ∧ Schedulable' (st.run s).1 rest

/-- every step refines its specification -/
theorem step'_refines (s : IState νr νb α) (hs : s.Inv) (st : Step' νb) (h : st.Ok s) :
    (st.run s).1.Inv ∧ s.Le (st.run s).1 ∧ Id.Valid (st.run s).1 (st.run s).2 ∧
      den (st.run s).1 (st.run s).2 = st.spec s := by
  cases st with
  | and x y n => exact andI_refines n s x y hs h.1 h.2.1 h.2.2
  | restrict f x n => exact restrictI_refines f n s x hs h.1 h.2

theorem Step'.Ok.mono {s s' : IState νr νb α} (hs : s.Inv) (hle : s.Le s') {st : Step' νb}
    (h : st.Ok s) : st.Ok s' ∧ st.spec s' = st.spec s := by
  cases st with
  | and x y n =>
    obtain ⟨vx, vy, hn⟩ := h
    have ex := den_mono hs.wf hle vx
    have ey := den_mono hs.wf hle vy
    exact ⟨⟨vx.mono hle, vy.mono hle, by rw [ex, ey]; exact hn⟩, by simp only [Step'.spec, ex, ey]⟩
  | restrict f x n =>
    obtain ⟨vx, hn⟩ := h
    have ex := den_mono hs.wf hle vx
    exact ⟨⟨vx.mono hle, by rw [ex]; exact hn⟩, by simp only [Step'.spec, ex]⟩

/-- the old schedules are the `and`-only new ones -/
theorem runSchedule'_ofStep (s : IState νr νb α) (sched : List Step) :
    runSchedule' s (sched.map (Step'.ofStep (νb := νb))) = runSchedule s sched := by
  induction sched generalizing s with
  | nil => rfl
  | cons st rest ih => simp only [List.map_cons, runSchedule', runSchedule]; exact ih _

/-- the invariant survives every interleaving of `and` and `restrict` steps; the arena only grows -/
theorem schedule_inv' (s : IState νr νb α) (hs : s.Inv) (sched : List (Step' νb))
    (h : Schedulable' s sched) : (runSchedule' s sched).Inv ∧ s.Le (runSchedule' s sched) := by
  induction sched generalizing s with
  | nil => exact ⟨hs, IState.Le.refl s⟩
  | cons st rest ih =>
    obtain ⟨hok, hr⟩ := h
    obtain ⟨i1, l1, _, _⟩ := step'_refines s hs st hok
    obtain ⟨i2, l2⟩ := ih _ i1 hr
    exact ⟨i2, l1.trans l2⟩

/-- **any interleaving**: whatever other threads did in between (`before`: conjunctions and
    restrictions with THEIR predicates), a thread's step yields the diagram its sequential run
    yields — in particular `restrict f x` yields `Tree.restrict f` of `x`'s diagram -/
theorem step_result_independent_of_interleaving' (s : IState νr νb α) (hs : s.Inv)
    (before : List (Step' νb)) (hb : Schedulable' s before) (st : Step' νb) (hok : st.Ok s) :
    let s' := runSchedule' s before
    den (st.run s').1 (st.run s').2 = st.spec s := by
  intro s'
  obtain ⟨i', l'⟩ := schedule_inv' s hs before hb
  obtain ⟨hok', hspec⟩ := hok.mono hs l'
  rw [(step'_refines s' i' st hok').2.2.2, hspec]

/-- the `restrict` instance, spelled out -/
theorem restrict_independent_of_interleaving (s : IState νr νb α) (hs : s.Inv)
    (before : List (Step' νb)) (hb : Schedulable' s before) (f : νb → Option Bool) (x : Id)
    (vx : Id.Valid s x) (n : Nat) (hn : (den s x).size ≤ n) :
    let s' := runSchedule' s before
    den (restrictI f n s' x).1 (restrictI f n s' x).2 = (den s x).restrict f :=
  step_result_independent_of_interleaving' s hs before hb (StepR f x n) ⟨vx, hn⟩

/-- two threads racing to perform the same step get the SAME id, whichever runs first and
    whatever (conjunctions, restrictions with other predicates) happens in between -/
theorem racing_threads_same_id' (s : IState νr νb α) (hs : s.Inv) (st : Step' νb) (hok : st.Ok s)
    (between : List (Step' νb)) (hb : Schedulable' (st.run s).1 between) :
    (st.run (runSchedule' (st.run s).1 between)).2 = (st.run s).2 := by
  obtain ⟨i1, l1, v1, d1⟩ := step'_refines s hs st hok
  obtain ⟨i2, l2⟩ := schedule_inv' _ i1 between hb
  obtain ⟨hok', hspec⟩ := hok.mono hs (l1.trans l2)
  obtain ⟨i3, l3, v3, d3⟩ := step'_refines _ i2 st hok'
  apply den_inj i3.wf v3 ((v1.mono l2).mono l3)
  rw [d3, hspec, den_mono i1.wf (l2.trans l3) v1, d1]

end Pep508.C15

section AxiomCheck
open Pep508
#print axioms C14.restrict_refines
#print axioms C14.restrict_cache_untouched
#print axioms C14.restrict_history_independent
#print axioms C14.restrict_same_id_later
#print axioms C14.restrict_twice
#print axioms C14.not_refines
#print axioms C14.is_disjoint_refines
#print axioms C14.is_disjoint_refines_tree
#print axioms C14.is_disjoint_history_independent
#print axioms C14.seeded_bug_not_refines
#print axioms C14.seeded_bug_history_dependent
#print axioms C14.seeded_bug_memo_sound_for_one_predicate
#print axioms C14.seeded_bug_repair
#print axioms C15.step'_refines
#print axioms C15.runSchedule'_ofStep
#print axioms C15.schedule_inv'
#print axioms C15.step_result_independent_of_interleaving'
#print axioms C15.restrict_independent_of_interleaving
#print axioms C15.racing_threads_same_id'
end AxiomCheck
