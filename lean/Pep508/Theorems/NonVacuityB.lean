/-
Non-vacuity witnesses, group B: Theorems/C01, C01b, C10, C05, C17, C17b
(marker expressions, marker parser, DNF / display).

Every conditional theorem of those files is APPLIED here to concrete, non-trivial arguments, so
that Lean checks that its hypotheses can be discharged together.  Where the hypotheses are about
the external parsers (`Ext`), the instance used is `xReal`: a genuine release-segment parser
(`3.8`, `3.8.*`, `1.0+local`), not the all-`none` instance.

The one VACUOUS group (C05: `to_dnf_sound`, `collect_exact`, `common_term_holds`) is recorded with
a proof that the culprit hypothesis is unsatisfiable (`vacuous_spell`), a proof that all the OTHER
hypotheses are jointly satisfiable, and a proof that the conclusion is nevertheless TRUE on a
concrete instance with a realistic spelling table (so the defect is the hypothesis, not the claim).
-/
import Pep508.Theorems.C01
import Pep508.Theorems.C01b
import Pep508.Theorems.C10
import Pep508.Theorems.C05
import Pep508.Theorems.C17
import Pep508.Theorems.C17b
namespace Pep508.NonVacuityB
open Pep508 Pep508.Spec Pep508.Cursor

/-! ## a realistic `Ext` -/

def digitVal (c : Char) : Option Nat := if c.isDigit then some (c.toNat - 48) else none

/-- `N(.N)*`: `cur` = the segment being read, `acc` = the finished segments, reversed -/
def parseRelAux : List Char → Option Nat → List Nat → Option (List Nat)
  | [], some n, acc => some (n :: acc).reverse
  | [], none, _ => none
  | c :: cs, cur, acc =>
    if c == '.' then
      match cur with
      | some n => parseRelAux cs none (n :: acc)
      | none => none
    else
      match digitVal c with
      | some d => parseRelAux cs (some (cur.getD 0 * 10 + d)) acc
      | none => none

/-- `Version::from_str`, release segments with an optional non-empty alphanumeric `+local` -/
def realVer (s : List Char) : Option VerInfo :=
  let main := s.takeWhile (· != '+')
  let loc := s.dropWhile (· != '+')
  match loc with
  | [] => (parseRelAux main none []).map (⟨·, false⟩)
  | _ :: l => if l ≠ [] ∧ l.all Char.isAlphanum then (parseRelAux main none []).map (⟨·, true⟩) else none

/-- `VersionPattern::from_str`: a version, or a version followed by `.*` -/
def realPat (s : List Char) : Option (VerInfo × Bool) :=
  match s.reverse with
  | '*' :: '.' :: r => (realVer r.reverse).map (·, true)
  | _ => (realVer s).map (·, false)

/-- the instance used for all `Ext` hypotheses below -/
def xReal : Ext := ⟨realVer, realPat, Char.isAlpha⟩

/-- it really parses versions (and rejects non-versions) -/
example : xReal.ver "3.8".toList = some ⟨[3, 8], false⟩ := by decide
example : xReal.ver "3.10.12".toList = some ⟨[3, 10, 12], false⟩ := by decide
example : xReal.ver "1.0+abc".toList = some ⟨[1, 0], true⟩ := by decide
example : xReal.ver "abc".toList = none := by decide
example : xReal.ver "3..8".toList = none := by decide
example : xReal.ver "3.8.*".toList = none := by decide
example : xReal.pat "3.8.*".toList = some (⟨[3, 8], false⟩, true) := by decide
example : xReal.pat "3.8".toList = some (⟨[3, 8], false⟩, false) := by decide
example : xReal.pat "abc".toList = none := by decide

/-- the all-`none` instance used by the in-file examples -/
def x0 : Ext := ⟨fun _ => none, fun _ => none, fun _ => false⟩

/-! ## environments -/

/-- CPython 3.9.1 on Linux; `implementation_version` 3.9.0 (stored stripped: 3.9) -/
def ρ1 : Env VarR VarB Val where
  rv
    | .ver .implVer => .ver [3, 9]
    | .ver _ => .ver [3, 9, 1]
    | .str ⟨1⟩ => .str "posix"
    | .str _ => .str "linux"
  bv
    | .extra (.extra "dev") => true
    | _ => false

/-! ## C17 (Theorems/C17.lean) -/

/-- `reported_and_dropped`: `'x' ~= os_name` -/
example : (dispatch xReal (.quoted ['x']) .tilde (.strKey ⟨1⟩)).1 = none ∧
    WarnKind.lexicographicComparison ∈ (dispatch xReal (.quoted ['x']) .tilde (.strKey ⟨1⟩)).2 :=
  C17.reported_and_dropped xReal (.quoted ['x']) .tilde (.strKey ⟨1⟩) .lexicographicComparison (by decide)

/-- … `extra >= 'a'` and `python_version == os_name` -/
example := C17.reported_and_dropped xReal .extra .ge (.quoted ['a']) .extraInvalidComparison (by decide)
example := C17.reported_and_dropped xReal (.verKey .pyVer) .eq (.strKey ⟨1⟩) .pep440Error (by decide)

/-- `never_silently`: a version key against a text that the REAL parser rejects -/
example : (dispatch xReal (.verKey .pfv) .ge (.quoted "abc".toList)).2 ≠ [] :=
  C17.never_silently xReal (.verKey .pfv) .ge (.quoted "abc".toList) (by decide)

/-- `version_kept_quiet`: NOT satisfiable with the all-`none` `Ext` (nothing is ever kept); with a
real parser `python_full_version >= '3.8'` is kept -/
example : (dispatch xReal (.verKey .pfv) .ge (.quoted "3.8".toList)).2 = [] :=
  C17.version_kept_quiet xReal .pfv .ge "3.8".toList (.version .pfv ⟨.ge, [3, 8]⟩) (by decide)

/-- … and `python_version == '3.8.*'` (wildcard) -/
example : (dispatch xReal (.verKey .pyVer) .eq (.quoted "3.8.*".toList)).2 = [] :=
  C17.version_kept_quiet xReal .pyVer .eq "3.8.*".toList (.version .pyVer ⟨.eqStar, [3, 8]⟩) (by decide)

/-- the hypothesis of `version_kept_quiet` is unsatisfiable at the degenerate `Ext` for every
symbolic operator (it only keeps the degenerate `python_version in ''`): a real parser is needed
to witness it -/
theorem version_kept_quiet_needs_real_ext (k : VKey) (op : MOp) (v : List Char) (e : MExpr)
    (h1 : op ≠ .isIn) (h2 : op ≠ .notIn) : (dispatch x0 (.verKey k) op (.quoted v)).1 ≠ some e := by
  have : (op == .isIn || op == .notIn) = false := by cases op <;> simp at h1 h2 ⊢
  simp [dispatch, this, parseVersionExpr, x0]
example : (dispatch x0 (.verKey .pfv) .isIn (.quoted [])).1 = some (.versionIn .pfv [] false) := by decide

/-! ## C01 (Theorems/C01.lean) -/

/-- `expr_version`: `python_full_version >= '3.8'` in 3.9.1 -/
example : (expression (.version .pfv ⟨.ge, [3, 8]⟩)).eval ρ1 = specSem .ge [3, 8] [3, 9, 1] :=
  C01.expr_version ρ1 .pfv ⟨.ge, [3, 8]⟩ [3, 9, 1] (by decide) ⟨by decide, by decide⟩ rfl

/-- … `~=` (the second conjunct of `wellFormed` is used), candidate with trailing zero
(`candVal [3,9,0] = .ver [3,9]`) -/
example : (expression (.version .implVer ⟨.tilde, [3, 8]⟩)).eval ρ1 = specSem .tilde [3, 8] [3, 9, 0] :=
  C01.expr_version ρ1 .implVer ⟨.tilde, [3, 8]⟩ [3, 9, 0] (by decide) ⟨by decide, by decide⟩ (by decide)

/-- … and the right-hand side is not constant over those instances -/
example : specSem .ge [3, 8] [3, 9, 1] = true ∧ specSem .ge [3, 10] [3, 9, 1] = false := by
  simp [specSem, cmpRel]

/-- `expr_version_in` -/
example : (expression (.versionIn .pfv [[3, 8], [3, 9, 1]] true)).eval ρ1 =
    (true != [[3, 8], [3, 9, 1]].any (fun v => cmpRel [3, 9, 1] v == .eq)) :=
  C01.expr_version_in ρ1 .pfv [[3, 8], [3, 9, 1]] true [3, 9, 1] (by decide) rfl

/-- `expr_string` -/
example : (expression (.string ⟨1⟩ .ge "nt")).eval ρ1 = strSem .ge "posix" "nt" :=
  C01.expr_string ρ1 ⟨1⟩ .ge "posix" "nt" (by decide) rfl

/-- `skeleton` has no hypothesis; an instance with two atoms -/
example := C01.skeleton ρ1 (n := 2)
  (fun i => if i = 0 then .version .pfv ⟨.ge, [3, 8]⟩ else .string ⟨1⟩ .eq "nt")

/-- `inverted_string` -/
example : ∃ sop, MOp.lt.invert.toSOp = some sop ∧
    dispatch xReal (.quoted ['n', 't']) .lt (.strKey ⟨1⟩) = (some (.string ⟨1⟩ sop (String.ofList ['n', 't'])), []) :=
  C01.inverted_string xReal ⟨1⟩ .lt ['n', 't'] (by decide)

/-! ## C10 (Theorems/C10.lean) -/

/-- `python_version_sem`: `python_version >= '3.8'`, interpreter 3.9.1 -/
example : (expression (.version .pyVer ⟨.ge, [3, 8]⟩)).eval ρ1 = specSem .ge [3, 8] [3, 9] :=
  C10.python_version_sem ⟨.ge, [3, 8]⟩ ⟨by decide, by decide⟩ (by decide) 3 9 1 ρ1 rfl

/-- … a star operator inside the carve-out boundary (two segments) and `~=` -/
example := C10.python_version_sem ⟨.eqStar, [3, 9]⟩ ⟨by decide, by decide⟩ (by decide) 3 9 1 ρ1 rfl
example := C10.python_version_sem ⟨.tilde, [3, 8]⟩ ⟨by decide, by decide⟩ (by decide) 3 9 1 ρ1 rfl
/-- … a three-segment non-star literal (the carve-out does not exclude it) -/
example := C10.python_version_sem ⟨.le, [3, 9, 0]⟩ ⟨by decide, by decide⟩ (by decide) 3 9 1 ρ1 rfl

example := C10.ne_is_not_eq [3, 9, 0] (by decide)
example := C10.neStar_is_not_eqStar [3, 9] (by decide)

/-- `python_version_in_sem` -/
example : (expression (.versionIn .pyVer [[3, 8], [3]] false)).eval ρ1 =
    (false != [[3, 8], [3]].any (fun v => cmpRel [3, 9] v == .eq)) :=
  C10.python_version_in_sem [[3, 8], [3]] false (by decide) 3 9 1 ρ1 rfl

/-! ## C05 (Theorems/C05.lean) -/

/-- `stripZeros` never returns a list ending in `0`; in particular never `[0]` -/
theorem stripZeros_ne_zero (r : List Nat) : stripZeros r ≠ [0] := by
  intro h
  have h' : r.reverse.dropWhile (· == 0) = [0] := by
    have := congrArg List.reverse h
    simpa [stripZeros] using this
  have hne : r.reverse.dropWhile (· == 0) ≠ [] := by rw [h']; simp
  have := List.head_dropWhile_not (· == 0) hne
  simp [h'] at this

/-- **VACUOUS**: the hypothesis `hs` of `C05.to_dnf_sound`, `C05.collect_exact`,
`C05.common_term_holds` is satisfied by NO spelling table (take `v = [0]`) -/
theorem vacuous_spell : ¬ ∃ spell : Spell, ∀ v, stripZeros (spell v) = v := by
  rintro ⟨spell, hs⟩
  exact stripZeros_ne_zero _ (hs [0])

/-- … not even `spell = id`, the spelling that prints the stored (normalised) release -/
example : ¬ ∀ v, stripZeros ((fun v => v : Spell) v) = v := fun h => vacuous_spell ⟨_, h⟩

theorem vacuous_to_dnf_sound : ¬ ∃ (spell : Spell) (t : MTree), (∀ v, stripZeros (spell v) = v) ∧
    t.wf = true ∧ Typed t ∧ t ≠ .leaf true := by
  rintro ⟨spell, _, hs, _⟩; exact vacuous_spell ⟨spell, hs⟩
/-- (`collect_exact` has exactly the hypotheses of `to_dnf_sound`) -/
theorem vacuous_collect_exact : ¬ ∃ (spell : Spell) (t : MTree), (∀ v, stripZeros (spell v) = v) ∧
    t.wf = true ∧ Typed t ∧ t ≠ .leaf true := vacuous_to_dnf_sound
theorem vacuous_common_term_holds : ¬ ∃ (spell : Spell) (t : MTree) (ρ : Env VarR VarB Val) (e : MExpr),
    (∀ v, stripZeros (spell v) = v) ∧ t.wf = true ∧ Typed t ∧ t ≠ .leaf true ∧
      (∀ c ∈ toDnf spell t, e ∈ c) ∧ t.eval ρ = true := by
  rintro ⟨spell, _, _, _, hs, _⟩; exact vacuous_spell ⟨spell, hs⟩

/-- the probable intended hypothesis — the spelling of a NORMALISED release denotes that release —
is satisfiable, by `id` and by the realistic "at least two segments" spelling (`3` prints as `3.0`) -/
def spell2 : Spell := fun v => v ++ List.replicate (2 - v.length) 0

theorem stripZeros_append_zeros (v : List Nat) (n : Nat) :
    stripZeros (v ++ List.replicate n 0) = stripZeros v := by
  induction n with
  | zero => simp
  | succ n ih =>
    rw [List.replicate_succ', ← List.append_assoc]
    unfold stripZeros at ih ⊢
    rw [List.reverse_append]
    simp

theorem spell2_intended : (∀ v, stripZeros v = v → stripZeros (spell2 v) = v) ∧
    (∀ v, stripZeros (spell2 v) = stripZeros v) ∧ spell2 [3] = [3, 0] :=
  ⟨fun v h => by rw [spell2, stripZeros_append_zeros, h],
   fun v => by rw [spell2, stripZeros_append_zeros], rfl⟩

/-- the OTHER hypotheses of the three theorems (`wf`, `Typed`, `≠ TRUE`) are jointly satisfiable by a
two-level diagram: `python_full_version >= '3.8' and extra == 'dev'` -/
def tDnf : MTree :=
  .rng (.ver .pfv) (.cons ⟨.unb, .excl (.ver [3, 8])⟩ (.leaf false)
    (.cons ⟨.incl (.ver [3, 8]), .unb⟩ (.bool (.extra (.extra "dev")) (.leaf true) (.leaf false)) .nil))

theorem tDnf_hyps : tDnf.wf = true ∧ Typed tDnf ∧ tDnf ≠ .leaf true :=
  ⟨by decide, by simp [tDnf, Typed, TypedE, Ivl.Kind, Bnd.Kind, kindOf], by decide⟩

/-- … and it is the diagram the implementation builds -/
example : tDnf = Tree.and (expression (.version .pfv ⟨.ge, [3, 8]⟩)) (expression (.extra false (.extra "dev"))) := by
  decide

/-- `Typed` at a string node: `os_name == 'nt'` -/
def tStr : MTree :=
  .rng (.str ⟨1⟩) (.cons ⟨.unb, .excl (.str "nt")⟩ (.leaf false)
    (.cons ⟨.incl (.str "nt"), .incl (.str "nt")⟩ (.leaf true)
      (.cons ⟨.excl (.str "nt"), .unb⟩ (.leaf false) .nil)))
example : Typed tStr ∧ tStr ≠ .leaf true :=
  ⟨by simp [tStr, Typed, TypedE, Ivl.Kind, Bnd.Kind, kindOf], by decide⟩
example : tStr = expression (.string ⟨1⟩ .eq "nt") := by decide

/-- `simplify_sound`: `AllOK` on a two-clause DNF with a `python_version` term -/
def dOK : List (List MExpr) :=
  [[.version .pyVer ⟨.ge, [3, 8]⟩, .string ⟨1⟩ .eq "nt"], [.version .pyVer ⟨.lt, [3, 8]⟩, .extra false (.extra "dev")]]

theorem dOK_ok : AllOK dOK := by
  intro c hc t ht
  simp only [dOK, List.mem_cons, List.not_mem_nil, or_false] at hc
  rcases hc with rfl | rfl <;>
    (simp only [List.mem_cons, List.not_mem_nil, or_false] at ht; rcases ht with rfl | rfl <;> simp [TermOK])

example : dnfSem ρ1 (simplifyDnf dOK) = dnfSem ρ1 dOK := C05.simplify_sound ρ1 dOK dOK_ok

/-- `is_negation_sound`: `python_version < '3.8'` / `python_version >= '3.8'` (the `TermOK` case that
matters) and a string pair -/
example : termSem ρ1 (.version .pyVer ⟨.lt, [3, 8]⟩) = !termSem ρ1 (.version .pyVer ⟨.ge, [3, 8]⟩) :=
  C05.is_negation_sound ρ1 (.version .pyVer ⟨.lt, [3, 8]⟩) (.version .pyVer ⟨.ge, [3, 8]⟩)
    (show [3, 8] ≠ [] by decide) (by decide)
example := C05.is_negation_sound ρ1 (.string ⟨1⟩ .isIn "nt") (.string ⟨1⟩ .notIn "nt") trivial (by decide)

/-- `quote_choice`: a value with a single quote -/
example := C05.quote_choice "it's" (by decide)
example := C05.quote_choice "plain" (by decide)

/-- the CONCLUSION of `to_dnf_sound` holds on this instance with the realistic spelling (so the
defect is the hypothesis, not the claim), and `to_dnf` returns the expected single clause -/
example : toDnf spell2 tDnf = [[.version .pfv ⟨.ge, [3, 8]⟩, .extra false (.extra "dev")]] := by decide
example : dnfSem ρ1 (toDnf spell2 tDnf) = tDnf.eval ρ1 := by decide

/-- note for the repair: weakening `hs` to the intended hypothesis is NOT enough on its own.  `id`
satisfies the intended hypothesis, the diagram below is `wf` and `Typed`, yet `to_dnf` is unsound
on it, because its bound `3.0` is not a normalised release (`Typed` does not say that bounds are
normalised; `expression` only builds normalised bounds).  The repaired theorem needs
"all version bounds `v` satisfy `stripZeros v = v`" as part of `Typed`. -/
def tNonNorm : MTree :=
  .rng (.ver .pfv) (.cons ⟨.unb, .excl (.ver [3, 0])⟩ (.leaf false)
    (.cons ⟨.incl (.ver [3, 0]), .unb⟩ (.leaf true) .nil))
def ρ3 : Env VarR VarB Val := ⟨fun _ => .ver [3], fun _ => false⟩

theorem intended_hs_needs_normalised_bounds :
    tNonNorm.wf = true ∧ Typed tNonNorm ∧ tNonNorm ≠ .leaf true ∧
    (∀ v, stripZeros v = v → stripZeros ((fun v => v : Spell) v) = v) ∧
    dnfSem ρ3 (toDnf (fun v => v) tNonNorm) = true ∧ tNonNorm.eval ρ3 = false :=
  ⟨by decide, by simp [tNonNorm, Typed, TypedE, Ivl.Kind, Bnd.Kind, kindOf], by decide,
    fun _ h => h, by decide, by decide⟩

/-! ## tokens and comparisons used for C01b / C17b, at the realistic `Ext` -/

def pfv : VTok := .key "python_full_version".toList
def osName : VTok := .key "os_name".toList
def sysPlat : VTok := .key "sys_platform".toList
def lit (v : String) : VTok := .str '\'' v.toList
def geTok : OTok := .sym ['>', '=']
def leTok : OTok := .sym ['<', '=']
def eqTok : OTok := .sym ['=', '=']
def tildeTok : OTok := .sym ['~', '=']

theorem pfv_lex : pfv.Lex (.verKey .pfv) := by
  show keyOfName (String.ofList "python_full_version".toList) = some _; decide
theorem osName_lex : osName.Lex (.strKey ⟨1⟩) := by
  show keyOfName (String.ofList "os_name".toList) = some _; decide
theorem sysPlat_lex : sysPlat.Lex (.strKey ⟨12⟩) := by
  show keyOfName (String.ofList "sys_platform".toList) = some _; decide

/-- `char::is_alphabetic` is false on operator chars: the `Ext` hypothesis of
`atom_string_op_key` / `Glue` for an operator touching a key name, at `xReal` -/
theorem xReal_alpha_sym : ∀ ch, symChar ch = true → xReal.alpha ch = false := by
  intro ch h
  simp only [symChar, Bool.or_eq_true, beq_iff_eq] at h
  rcases h with (((rfl | rfl) | rfl) | rfl) | rfl <;> decide

theorem geTok_lex : geTok.Lex xReal .ge := ⟨by decide, by decide⟩
theorem leTok_lex : leTok.Lex xReal .le := ⟨by decide, by decide⟩
theorem eqTok_lex : eqTok.Lex xReal .eq := ⟨by decide, by decide⟩
theorem tildeTok_lex : tildeTok.Lex xReal .tilde := ⟨by decide, by decide⟩
theorem lit_lex (v : String) (h : AllP (fun ch => ch != '\'') v.toList) : (lit v).Lex (.quoted v.toList) :=
  ⟨by decide, h, rfl⟩
/-- symbolic operator, literal on the right -/
theorem glue_sym_lit (l : VTok) (w1 w2 : List Char) (o : List Char) (v : String) :
    Glue xReal l w1 (.sym o) w2 (lit v) := ⟨fun _ h => (by cases h), fun h => by cases h⟩
/-- symbolic operator, literal on the left (key or literal on the right) -/
theorem glue_lit_sym (v : String) (w1 w2 : List Char) (o : List Char) (r : VTok) :
    Glue xReal (lit v) w1 (.sym o) w2 r := ⟨fun h => (by cases h), fun _ _ => xReal_alpha_sym⟩

/-- `python_full_version >= '3.8'` — kept, through the REAL version-pattern parser -/
def aPfv : List Char := atomLOR pfv [' '] geTok [' '] (lit "3.8")
/-- `python_full_version >= 'abc'` — dropped because the real parser rejects `abc` -/
def aBad : List Char := atomLOR pfv [' '] geTok [' '] (lit "abc")
/-- `os_name == 'nt'` -/
def aOs : List Char := atomLOR osName [' '] eqTok [' '] (lit "nt")
/-- `'a' == 'b'` — uninterpretable -/
def aSS : List Char := atomLOR (lit "a") [' '] eqTok [' '] (lit "b")
/-- `'3.8' <=python_full_version` — inverted, operator glued to the key name -/
def aRev : List Char := atomLOR (lit "3.8") [' '] leTok [] pfv

example : aPfv = "python_full_version >= '3.8'".toList := by decide
example : aRev = "'3.8' <=python_full_version".toList := by decide

theorem aPfv_ok : AtomOK xReal aPfv ∧ atomSem xReal aPfv = (some (.version .pfv ⟨.ge, [3, 8]⟩), []) ∧
    endsQuote aPfv = true ∧ AtomHead aPfv := by
  have h := C17.atom_shape xReal (l := pfv) (o := geTok) (r := lit "3.8") (w1 := [' ']) (w2 := [' '])
    pfv_lex geTok_lex (lit_lex "3.8" (by decide)) (by decide) (by decide) (glue_sym_lit _ _ _ _ _)
  exact ⟨h.1, h.2.1.trans (by decide), h.2.2.1, h.2.2.2⟩

theorem aBad_ok : AtomOK xReal aBad ∧ atomSem xReal aBad = (none, [.pep440Error]) ∧
    endsQuote aBad = true ∧ AtomHead aBad := by
  have h := C17.atom_shape xReal (l := pfv) (o := geTok) (r := lit "abc") (w1 := [' ']) (w2 := [' '])
    pfv_lex geTok_lex (lit_lex "abc" (by decide)) (by decide) (by decide) (glue_sym_lit _ _ _ _ _)
  exact ⟨h.1, h.2.1.trans (by decide), h.2.2.1, h.2.2.2⟩

theorem aOs_ok : AtomOK xReal aOs ∧ atomSem xReal aOs = (some (.string ⟨1⟩ .eq "nt"), []) ∧
    endsQuote aOs = true ∧ AtomHead aOs := by
  have h := C17.atom_shape xReal (l := osName) (o := eqTok) (r := lit "nt") (w1 := [' ']) (w2 := [' '])
    osName_lex eqTok_lex (lit_lex "nt" (by decide)) (by decide) (by decide) (glue_sym_lit _ _ _ _ _)
  exact ⟨h.1, h.2.1.trans (by decide), h.2.2.1, h.2.2.2⟩

theorem aSS_ok : AtomOK xReal aSS ∧ atomSem xReal aSS = (none, [.stringStringComparison]) ∧
    endsQuote aSS = true ∧ AtomHead aSS := by
  have h := C17.atom_shape xReal (l := lit "a") (o := eqTok) (r := lit "b") (w1 := [' ']) (w2 := [' '])
    (lit_lex "a" (by decide)) eqTok_lex (lit_lex "b" (by decide)) (by decide) (by decide) (glue_sym_lit _ _ _ _ _)
  exact ⟨h.1, h.2.1.trans (by decide), h.2.2.1, h.2.2.2⟩

/-- here the second conjunct of `Glue` is used in its `Ext` branch -/
theorem aRev_ok : AtomOK xReal aRev ∧ atomSem xReal aRev = (some (.version .pfv ⟨.ge, [3, 8]⟩), []) ∧
    endsQuote aRev = false ∧ AtomHead aRev := by
  have h := C17.atom_shape xReal (l := lit "3.8") (o := leTok) (r := pfv) (w1 := [' ']) (w2 := [])
    (lit_lex "3.8" (by decide)) leTok_lex pfv_lex (by decide) (by decide) (glue_lit_sym _ _ _ _ _)
  exact ⟨h.1, h.2.1.trans (by decide), h.2.2.1, h.2.2.2⟩

/-! ## layouts -/

/-- `python_full_version >= '3.8' and ( python_full_version >= 'abc' or os_name == 'nt')` -/
def m1 : MAst :=
  .and (.atom [] aPfv) [' '] (.paren [' '] (.or (.atom [' '] aBad) [' '] (.atom [' '] aOs)) [])
/-- the same skeleton, other blanks (tab, no-break space, blanks inside the parentheses) -/
def m1' : MAst :=
  .and (.atom ['\t'] aPfv) [' ', ' '] (.paren [Char.ofNat 0xA0] (.or (.atom [] aBad) ['\t'] (.atom [' '] aOs)) [' '])
/-- `m1` with the dropped comparison removed -/
def m1p : MAst := .and (.atom [] aPfv) [' '] (.paren [' '] (.atom [' '] aOs) [])

example : m1.layout =
    "python_full_version >= '3.8' and ( python_full_version >= 'abc' or os_name == 'nt')".toList := by decide

theorem m1_wf : m1.WF :=
  ⟨⟨AllP.nil _, aPfv_ok.2.2.2⟩,
    ⟨by decide, AllP.nil _, ⟨by decide, aBad_ok.2.2.2⟩, ⟨by decide, aOs_ok.2.2.2⟩, rfl, by decide,
      .inr (by decide), ⟨' ', _, rfl, by decide⟩⟩,
    rfl, rfl, by decide, .inr (by decide), ⟨' ', _, rfl, by decide⟩⟩
theorem m1_at : m1.AtomsOK xReal := ⟨aPfv_ok.1, aBad_ok.1, aOs_ok.1⟩

theorem m1'_wf : m1'.WF :=
  ⟨⟨by decide, aPfv_ok.2.2.2⟩,
    ⟨by decide, by decide, ⟨AllP.nil _, aBad_ok.2.2.2⟩, ⟨by decide, aOs_ok.2.2.2⟩, rfl, by decide,
      .inr (by decide), ⟨' ', _, rfl, by decide⟩⟩,
    rfl, rfl, by decide, .inr (by decide), ⟨Char.ofNat 0xA0, _, rfl, by decide⟩⟩
theorem m1'_at : m1'.AtomsOK xReal := ⟨aPfv_ok.1, aBad_ok.1, aOs_ok.1⟩

theorem m1_denote : m1.denote xReal =
    (some (Tree.and (expression (.version .pfv ⟨.ge, [3, 8]⟩)) (expression (.string ⟨1⟩ .eq "nt"))),
      [.pep440Error]) := by
  simp [m1, MAst.denote, aPfv_ok.2.1, aBad_ok.2.1, aOs_ok.2.1, combine]

theorem m1_prune : m1.prune xReal = some m1p := by
  simp [m1, m1p, MAst.prune, MAst.keptAtom, aPfv_ok.2.1, aBad_ok.2.1, aOs_ok.2.1]

/-- `python_full_version >= '3.8'and 'a' == 'b' and '3.8' <=python_full_version` -/
def m2 : MAst := .and (.and (.atom [] aPfv) [] (.atom [' '] aSS)) [' '] (.atom [' '] aRev)
def m2p : MAst := .and (.atom [] aPfv) [' '] (.atom [' '] aRev)

theorem m2_wf : m2.WF :=
  ⟨⟨⟨AllP.nil _, aPfv_ok.2.2.2⟩, ⟨by decide, aSS_ok.2.2.2⟩, rfl, rfl, AllP.nil _, .inl aPfv_ok.2.2.1,
      ⟨' ', _, rfl, by decide⟩⟩,
    ⟨by decide, aRev_ok.2.2.2⟩, rfl, rfl, by decide, .inr (by decide), ⟨' ', _, rfl, by decide⟩⟩
theorem m2_at : m2.AtomsOK xReal := ⟨⟨aPfv_ok.1, aSS_ok.1⟩, aRev_ok.1⟩
theorem m2_prune : m2.prune xReal = some m2p := by
  simp [m2, m2p, MAst.prune, MAst.keptAtom, aPfv_ok.2.1, aSS_ok.2.1, aRev_ok.2.1]

/-- `'a' == 'b' or python_full_version >= 'abc'`: everything dropped (under the real parser) -/
def m3 : MAst := .or (.atom [] aSS) [' '] (.atom [' '] aBad)
theorem m3_wf : m3.WF :=
  ⟨⟨AllP.nil _, aSS_ok.2.2.2⟩, ⟨by decide, aBad_ok.2.2.2⟩, rfl, by decide, .inr (by decide),
    ⟨' ', _, rfl, by decide⟩⟩
theorem m3_at : m3.AtomsOK xReal := ⟨aSS_ok.1, aBad_ok.1⟩
theorem m3_prune : m3.prune xReal = none := by
  simp [m3, MAst.prune, MAst.keptAtom, aSS_ok.2.1, aBad_ok.2.1]

/-! ## C01b (Theorems/C01b.lean) -/

/-- `layout_parses`: non-empty trailing blanks, a version comparison through the real parser -/
theorem nv_layout_parses : parseMarkers xReal (m1.layout ++ [' ', '\t']) =
    .ok (Tree.and (expression (.version .pfv ⟨.ge, [3, 8]⟩)) (expression (.string ⟨1⟩ .eq "nt")),
      [.pep440Error]) := by
  have h := C01.layout_parses xReal m1 [' ', '\t'] m1_wf m1_at (by decide)
  rw [m1_denote] at h
  exact h

/-- `layout_parses_cursor`: at a NON-initial cursor (after `name ;`), minimal admissible fuel -/
def pre : List Char := "name ;".toList
def c1 : Cursor := (Cursor.new (pre ++ (m1.layout ++ [' ']))).adv pre
theorem c1_inv : c1.Inv := adv_inv (inv_new _) rfl
theorem c1_rest : c1.rest = m1.layout ++ [' '] := adv_rest rfl

example := C01.layout_parses_cursor xReal m1 [' '] m1_wf m1_at (by decide) c1 c1_inv c1_rest
  (4 * c1.rest.length + 3) (Nat.le_refl _)

/-- `layout_then_junk`: junk after a closed layout (`m1` ends with `)`) -/
example := C01.layout_then_junk xReal m1 " ; x".toList m1_wf m1_at (.inl rfl) (by decide) (by decide)
/-- … and the soft-end branch of `hend`: `m2` ends with a key name, a blank follows -/
example := C01.layout_then_junk xReal m2 " andy".toList m2_wf m2_at
  (.inr (by intro ch h; cases h; exact .inl (by decide))) (by decide) (by decide)

/-- `layout_parses_sub`: non-empty accumulated warnings, continuation `) x` -/
def c2 : Cursor := Cursor.new (m1.layout ++ [')', ' ', 'x'])
theorem nv_layout_parses_sub :
    parseOp xReal false (4 * c2.rest.length + 3) c2 [.deprecatedMarkerName] =
      .ok ⟨(m1.denote xReal).1, [.deprecatedMarkerName] ++ (m1.denote xReal).2,
        (c2.adv m1.layout).eatWhitespace⟩ :=
  C01.layout_parses_sub xReal m1 m1_wf m1_at c2 [.deprecatedMarkerName]
    [')', ' ', 'x'] (inv_new _) rfl (.inl rfl) (by decide) (by decide) (4 * c2.rest.length + 3) (Nat.le_refl _)

/-- `more_fuel_same`: its hypothesis (no stack panic) holds at the fuel of the previous witness -/
example := C01.more_fuel_same xReal (fuel := 4 * c2.rest.length + 3) (fuel' := 1000)
  (by decide) false c2 [.deprecatedMarkerName] (by rw [nv_layout_parses_sub]; intro h; cases h)

/-- … and the hypothesis is a real restriction: with too little fuel the model does panic -/
example : parseOp xReal false 0 c2 [] = .panic "stack" := rfl

/-- `layout_independent` -/
example : parseMarkers xReal (m1.layout ++ []) = parseMarkers xReal (m1'.layout ++ [' ']) :=
  C01.layout_independent xReal m1 m1' [] [' '] rfl m1_wf m1'_wf m1_at m1'_at (AllP.nil _) (by decide)

/-- `atom_key_op_string`: `python_full_version>="3.8"` (no blanks, double quotes) -/
example := C01.atom_key_op_string xReal (k := "python_full_version".toList) (w1 := []) (o := ['>', '='])
  (w2 := []) (v := "3.8".toList) (q := '"') (kv := .verKey .pfv) (op := .ge)
  (by decide) ⟨'p', _, rfl, by decide⟩ (by decide) (by decide) (by decide) (by decide) (by decide)
  (by decide) (by decide)

/-- `atom_string_op_key`: `'3.8' <=python_full_version`, the `Ext` branch of `halpha` -/
example := C01.atom_string_op_key xReal (k := "python_full_version".toList) (w1 := [' ']) (o := ['<', '='])
  (w2 := []) (v := "3.8".toList) (q := '\'') (kv := .verKey .pfv) (op := .le)
  (by decide) ⟨'p', _, rfl, by decide⟩ (by decide) (by decide) (by decide) (by decide) (by decide)
  (by decide) (by decide) (by decide) (.inr xReal_alpha_sym)

/-! ## C17b (Theorems/C17b.lean) -/

theorem aBad_mem : aBad ∈ m1.atoms := by simp [m1, MAst.atoms]
theorem aSS_mem : aSS ∈ m2.atoms := by simp [m2, MAst.atoms]

example : WarnKind.pep440Error ∈ (m1.denote xReal).2 :=
  C17.every_warning_reported xReal m1 aBad aBad_mem .pep440Error (by rw [aBad_ok.2.1]; simp)

example := C17.atom_is_dispatch xReal aPfv aPfv_ok.1
example : (atomSem xReal aBad).2 ≠ [] :=
  C17.dropped_reports xReal aBad aBad_ok.1 (by rw [MAst.DroppedAtom, aBad_ok.2.1])

example := C17.pruned_atoms xReal m1 m1p m1_prune
example := C17.parse_is_pruned xReal m1 [' '] m1_wf m1_at (by decide)

/-- `uninterpretable_anywhere`: the dropped comparison in the MIDDLE of a chain -/
example := C17.uninterpretable_anywhere xReal m2 [' '] m2_wf m2_at (by decide) aSS aSS_mem
  (.quoted ['a']) (.quoted ['b']) .eq .stringStringComparison (by rw [aSS_ok.2.1]; rfl) rfl

/-- `parse_same_tree`: `m2p.Gaps` holds (the pruned layout keeps the blank before `and`) -/
theorem m2p_gaps : m2p.Gaps := ⟨trivial, trivial, .inr (by decide)⟩
example := C17.parse_same_tree xReal m2 m2p [] [' '] m2_wf m2_at m2_prune m2p_gaps (AllP.nil _) (by decide)

example : parseMarkers xReal (m3.layout ++ [' ']) =
    .ok (.leaf true, m3.atoms.flatMap (fun a => (atomSem xReal a).2)) :=
  C17.parse_all_dropped xReal m3 [' '] m3_wf m3_at m3_prune (by decide)

example := C17.pruned_wf_iff xReal m2 m2p m2_wf m2_prune
example := C17.pruned_atomsOK xReal m1 m1p m1_prune m1_at

/-- `pruned_wf_of_spaced` / `pruned_wf_of_closed`: `m1` is both spaced and all-closed -/
theorem m1_spaced : m1.Spaced := ⟨trivial, ⟨trivial, trivial, by decide⟩, by decide⟩
theorem m1_closed : m1.AllClosed := by
  intro a ha
  simp only [m1, MAst.atoms, List.cons_append, List.nil_append, List.mem_cons, List.not_mem_nil,
    or_false] at ha
  rcases ha with rfl | rfl | rfl
  · exact aPfv_ok.2.2.1
  · exact aBad_ok.2.2.1
  · exact aOs_ok.2.2.1
example := C17.pruned_wf_of_spaced xReal m1 m1p m1_wf m1_spaced m1_prune
example := C17.pruned_wf_of_closed xReal m1 m1p m1_wf m1_closed m1_prune

/-- word operators need `x.alpha`: satisfied by `xReal`, and the list goes through the REAL
version parser (`splitVersions`) -/
example := C17.atom_key_in_string xReal (k := "python_full_version".toList) (w1 := [' ']) (w2 := [])
  (v := "3.8 3.9.1".toList) (q := '\'') (kv := .verKey .pfv) (by decide) (by decide) (by decide) (by decide)
  (by decide) (by decide) (by decide)
example : dispatch xReal (.verKey .pfv) .isIn (.quoted "3.8 3.9.1".toList) =
    (some (.versionIn .pfv [[3, 8], [3, 9, 1]] false), []) := by decide

example := C17.atom_key_notin_string xReal (k := "python_full_version".toList) (w1 := [' ']) (wn := ['\t'])
  (w2 := [' ']) (v := "3.8".toList) (q := '"') (kv := .verKey .pfv) (by decide) (by decide) (by decide)
  (by decide) (by decide) (by decide) (by decide) (by decide) (by decide)
example := C17.atom_string_in_key xReal (k := "os_name".toList) (w1 := []) (w2 := [' '])
  (v := "nt".toList) (q := '\'') (kv := .strKey ⟨1⟩) (by decide) (by decide) (by decide) (by decide)
  (by decide) (by decide) (by decide)
example := C17.atom_string_notin_key xReal (k := "os_name".toList) (w1 := [' ']) (wn := [' ']) (w2 := [])
  (v := "nt".toList) (q := '\'') (kv := .strKey ⟨1⟩) (by decide) (by decide) (by decide) (by decide)
  (by decide) (by decide) (by decide) (by decide)

example := C17.atom_string_op_string xReal (v1 := ['a']) (v2 := ['b', '\'']) (w1 := [' ']) (w2 := [])
  (q1 := '\'') (q2 := '"') (o := .isIn) (op := .isIn) ⟨by decide, rfl⟩ (by decide) (by decide) (by decide)
  (by decide) (by decide) (by decide)

example := C17.dispatch_key_key xReal .eq (lv := .strKey ⟨1⟩) (rv := .verKey .pfv)
  (fun _ h => by cases h) (fun _ h => by cases h)
example := C17.keyOfName_not_quoted (s := "os_name") (kv := .strKey ⟨1⟩) (by decide) ['x']

/-- `atom_key_op_key`: `os_name not insys_platform` (word operator, glued on the right) -/
example := C17.atom_key_op_key xReal (k1 := "os_name".toList) (k2 := "sys_platform".toList) (w1 := [' '])
  (w2 := []) (o := .notIn [' ']) (op := .notIn) (lv := .strKey ⟨1⟩) (rv := .strKey ⟨12⟩)
  (by decide) (by decide) ⟨by decide, by decide, by decide, rfl⟩ (by decide) (by decide)
  ⟨fun _ _ => (by decide), fun _ _ => trivial⟩

/-- `shape_dropped`: `'x' ~= os_name` -/
example := C17.shape_dropped xReal (l := lit "x") (o := tildeTok) (r := osName) (w1 := [' ']) (w2 := [' '])
  (lv := .quoted ['x']) (rv := .strKey ⟨1⟩) (op := .tilde) (k := .lexicographicComparison)
  (lit_lex "x" (by decide)) tildeTok_lex osName_lex (by decide) (by decide)
  (glue_lit_sym _ _ _ _ _) (by decide)

/-- the `Ext` hypotheses of the dispatch-table rows: `xReal` rejects `abc` as a pattern, rejects the
wildcard `3.8.*` as a plain version, and fails on the second member of `3.8 abc` -/
example := C17.dispatch_verKey_bad xReal .pfv .ge "abc".toList ⟨by decide, by decide⟩ (by decide)
example := C17.dispatch_bad_verKey xReal .pfv .ge "3.8.*".toList (by decide)
example := C17.dispatch_verKey_in_bad xReal .pfv .isIn "3.8 abc".toList (.inl rfl) (by decide)
example := C17.dispatch_extra_bad xReal .lt "dev".toList ⟨by decide, by decide⟩

example := C17.example_all_dropped xReal (by decide)
example := C17.example_in xReal (by decide)
example := C17.example_not_in_glued xReal (by decide)

end Pep508.NonVacuityB
