/-
C04 — is_true / is_false / is_disjoint verdicts are never wrong.

`Tree.isDisjoint` models `InternerGuard::is_disjoint`; `is_true()` / `is_false()` are comparison
with the terminals.  Soundness is stated for every environment of every linear order.
-/
import Pep508.Proofs.Unary
import Pep508.Theorems.C02
set_option linter.unusedSectionVars false
namespace Pep508.C04
open Pep508
variable {νr νb α : Type}
variable [LT α] [LE α] [Std.IsLinearOrder α] [Std.LawfulOrderLT α] [DecidableLT α] [DecidableEq α]
variable [LT νr] [LE νr] [Std.IsLinearOrder νr] [Std.LawfulOrderLT νr] [DecidableLT νr] [DecidableEq νr]
variable [LT νb] [LE νb] [Std.IsLinearOrder νb] [Std.LawfulOrderLT νb] [DecidableLT νb] [DecidableEq νb]

/-- `a.is_disjoint(b)` ⇒ no environment satisfies both -/
theorem is_disjoint_sound (x y : Tree νr νb α) (hx : x.wf = true) (hy : y.wf = true)
    (h : Tree.isDisjoint x y = true) (ρ : Env νr νb α) : ¬ (x.eval ρ = true ∧ y.eval ρ = true) :=
  isDisjoint_sound x y (Tree.OK_of_wf x hx) (Tree.OK_of_wf y hy) h ρ

/-- `is_disjoint` is symmetric (no hypotheses at all) -/
theorem is_disjoint_symm (x y : Tree νr νb α) : Tree.isDisjoint x y = Tree.isDisjoint y x :=
  isDisjoint_comm x y

/-- `a.is_disjoint(b)` agrees with `(a and b).is_false()` -/
theorem is_disjoint_iff_and_false (x y : Tree νr νb α) :
    Tree.isDisjoint x y = true ↔ Tree.and x y = .leaf false := isDisjoint_iff_and x y

/-- `is_false()` ⇒ no environment satisfies the marker; `is_true()` ⇒ all do -/
theorem is_false_sound (x : Tree νr νb α) (h : x = .leaf false) (ρ : Env νr νb α) : x.eval ρ = false := by
  subst h; rfl
theorem is_true_sound (x : Tree νr νb α) (h : x = .leaf true) (ρ : Env νr νb α) : x.eval ρ = true := by
  subst h; rfl

/-- if the conjunction is the FALSE terminal the operands are semantically disjoint -/
theorem and_false_sound (x y : Tree νr νb α) (hx : x.wf = true) (hy : y.wf = true)
    (h : Tree.and x y = .leaf false) (ρ : Env νr νb α) : ¬ (x.eval ρ = true ∧ y.eval ρ = true) := by
  have := C02.eval_and_of_wf ρ x y hx hy
  rw [h] at this
  intro ⟨h1, h2⟩
  simp [Tree.eval, h1, h2] at this

/-! non-vacuity -/
example : Tree.isDisjoint C02.exA (C02.exA.not) = true := by decide
example : Tree.isDisjoint C02.exA C02.exB = false := by decide

end Pep508.C04
