/-
Non-vacuity witnesses, group E: C14b (`restrict` / `not` / `is_disjoint` on ids, schedules with
`restrict` steps).

Every hypothesis-carrying theorem of C14b.lean is APPLIED to concrete, non-trivial arguments on the
reachable interner states of NonVacuityD (`sBase`: 4 nodes; `sAnd2`: 6 nodes, 2 AND-memo entries;
`sOther`: another history, other ids for the same diagrams), and the shape of the results is pinned
down by `decide` (new node created / existing id reused / complemented ids / terminal).
The fuel hypothesis is shown to be a real one (`fuel_needed`).

No theorem of this group was found vacuous.
-/
import Pep508.Theorems.C14b
import Pep508.Theorems.NonVacuityD
namespace Pep508.NonVacuityE
open Pep508 Pep508.NonVacuityD

/-- fix `b0 := true`, leave every other boolean variable alone -/
def fT : Nat → Option Bool := fun v => if v = 0 then some true else none
/-- fix `b0 := false` -/
def fF : Nat → Option Bool := fun v => if v = 0 then some false else none
/-- fix nothing -/
def fN : Nat → Option Bool := fun _ => none

theorem vD2 : Id.Valid sAnd2 xD := (vD.mono le01).mono le12
theorem fuelD : (den sAnd2 xD).size ≤ 7 := by decide

/-! ### `restrict_refines` on `sAnd2` (6 nodes, non-empty AND memo), operand `v1 <= 7 and b0`
(range node over a boolean node: the `mapEdgesI` case, then the fixed-variable case) -/
def a1 := restrictI fT 7 sAnd2 xD
theorem nv_restrict_refines : a1.1.Inv ∧ sAnd2.Le a1.1 ∧ Id.Valid a1.1 a1.2 ∧
    den a1.1 a1.2 = (den sAnd2 xD).restrict fT :=
  C14.restrict_refines fT 7 sAnd2 xD sAnd2_inv vD2 fuelD
/-- the step created a node (`v1 <= 7`), and the diagram is the expected one -/
example : a1.1.nodes.length = 7 ∧ a1.2 = .ref 6 false ∧ a1.1.cache.length = 2 ∧
    (den sAnd2 xD).restrict fT =
      .rng 1 (.cons ⟨.unb, .incl 7⟩ (.leaf true) (.cons ⟨.excl 7, .unb⟩ (.leaf false) .nil)) := by decide

/-- with the other value the node collapses to the FALSE terminal (`create_node`: all children equal) -/
theorem nv_restrict_refines_F : den (restrictI fF 7 sAnd2 xD).1 (restrictI fF 7 sAnd2 xD).2 =
    (den sAnd2 xD).restrict fF := (C14.restrict_refines fF 7 sAnd2 xD sAnd2_inv vD2 fuelD).2.2.2
example : (restrictI fF 7 sAnd2 xD).2 = .ff ∧ (restrictI fF 7 sAnd2 xD).1.nodes.length = 6 := by decide

/-- on a COMPLEMENTED operand (`not (v1 <= 7 and b0)`): the complement bit is pushed to the children -/
theorem nv_restrict_refines_compl : den (restrictI fT 7 sAnd2 xD.not).1 (restrictI fT 7 sAnd2 xD.not).2 =
    (den sAnd2 xD.not).restrict fT :=
  (C14.restrict_refines fT 7 sAnd2 xD.not sAnd2_inv ((Id.valid_not _ _).mpr vD2) (by decide)).2.2.2
example : (restrictI fT 7 sAnd2 xD.not).2 = .ref 6 true ∧ xD.not = .ref 3 true := by decide

/-- the empty predicate rebuilds every node through `create_node` and finds the SAME id -/
theorem nv_restrict_refines_N : den (restrictI fN 7 sAnd2 xD).1 (restrictI fN 7 sAnd2 xD).2 =
    (den sAnd2 xD).restrict fN := (C14.restrict_refines fN 7 sAnd2 xD sAnd2_inv vD2 fuelD).2.2.2
example : (restrictI fN 7 sAnd2 xD).2 = xD ∧ (restrictI fN 7 sAnd2 xD).1.nodes = sAnd2.nodes := by decide

/-- the fuel hypothesis is a real one: with too little fuel the answer is wrong (FALSE instead of
    the operand).  The bound `size ≤ n` is sufficient, not necessary: the recursion depth is what
    counts (terminals need no fuel), fuel 2 is already enough for this operand of size 7. -/
theorem fuel_needed : ¬ (den sAnd2 xD).size ≤ 1 ∧ (restrictI fN 1 sAnd2 xD).2 = .ff ∧
    den (restrictI fN 1 sAnd2 xD).1 (restrictI fN 1 sAnd2 xD).2 ≠ (den sAnd2 xD).restrict fN ∧
    (restrictI fN 2 sAnd2 xD).2 = xD := by decide

theorem nv_restrict_cache_untouched : a1.1.cache = sAnd2.cache := C14.restrict_cache_untouched fT 7 sAnd2 xD

/-! ### `restrict_history_independent` : `sAnd2` against the interner `sOther` (other insertion
order, `tD` has another id there) -/
def yD : Id := q1.2
theorem vyD : Id.Valid sOther yD := by decide
example : yD ≠ xD := by decide
theorem nv_restrict_history_independent :
    den (restrictI fT 7 sAnd2 xD).1 (restrictI fT 7 sAnd2 xD).2 =
      den (restrictI fT 9 sOther yD).1 (restrictI fT 9 sOther yD).2 :=
  C14.restrict_history_independent fT 7 9 sAnd2 sOther xD yD sAnd2_inv sOther_inv vD2 vyD
    (by decide) fuelD (by decide)
/-- different ids, same diagram -/
example : (restrictI fT 7 sAnd2 xD).2 ≠ (restrictI fT 9 sOther yD).2 := by decide

/-! ### `restrict_same_id_later` : after OTHER restrictions (other predicate) and a conjunction -/
def sLater : S := (andI 14 (restrictI fF 7 a1.1 xA).1 xB xD).1
theorem a1_inv : a1.1.Inv := nv_restrict_refines.1
theorem vA_a1 : Id.Valid a1.1 xA := ((vA.mono le01).mono le12).mono nv_restrict_refines.2.1
theorem mid : (restrictI fF 7 a1.1 xA).1.Inv ∧ a1.1.Le (restrictI fF 7 a1.1 xA).1 :=
  let h := C14.restrict_refines fF 7 a1.1 xA a1_inv vA_a1 (by decide)
  ⟨h.1, h.2.1⟩
theorem later : sLater.Inv ∧ (restrictI fF 7 a1.1 xA).1.Le sLater :=
  let h := C14.and_refines 14 (restrictI fF 7 a1.1 xA).1 xB xD mid.1 (by decide) (by decide) (by decide)
  ⟨h.1, h.2.1⟩
example : sLater.nodes.length = 8 := by decide
theorem nv_restrict_same_id_later : (restrictI fT 30 sLater xD).2 = (restrictI fT 7 sAnd2 xD).2 :=
  C14.restrict_same_id_later fT 7 30 sAnd2 sLater xD sAnd2_inv later.1 vD2 (mid.2.trans later.2) fuelD
    (by decide)

/-! ### `restrict_twice` -/
def fT1 : Nat → Option Bool := fun v => if v = 1 then some true else none
theorem nv_restrict_twice :
    den (restrictI fT 7 (restrictI fT1 7 sAnd2 xD).1 (restrictI fT1 7 sAnd2 xD).2).1
        (restrictI fT 7 (restrictI fT1 7 sAnd2 xD).1 (restrictI fT1 7 sAnd2 xD).2).2 =
      ((den sAnd2 xD).restrict fT1).restrict fT :=
  C14.restrict_twice fT1 fT 7 7 sAnd2 xD sAnd2_inv vD2 fuelD (by decide)

/-! ### `not_refines`, `is_disjoint_refines` -/
theorem nv_not_refines : (notI sBase xB).1 = sBase ∧ Id.Valid sBase (notI sBase xB).2 ∧
    den sBase (notI sBase xB).2 = (den sBase xB).not := C14.not_refines sBase xB vB
example : (notI sBase xB).2 = .ref 1 false := by decide

/-- `v0 < 3` and `v0 >= 1` overlap … -/
theorem nv_is_disjoint_refines : isDisjointI 11 sBase xA xB = isDisjointF 11 (den sBase xA) (den sBase xB) :=
  C14.is_disjoint_refines 11 sBase xA xB sBase_inv vA vB
example : isDisjointI 11 sBase xA xB = false := by decide
/-- … `v0 >= 3` and `v0 < 1` do not (two complemented ids, the `disjRangesI` case) -/
theorem nv_is_disjoint_refines_tree :
    isDisjointI ((den sBase xA.not).size + (den sBase xB.not).size + 1) sBase xA.not xB.not =
      Tree.isDisjoint (den sBase xA.not) (den sBase xB.not) :=
  C14.is_disjoint_refines_tree sBase xA.not xB.not sBase_inv ((Id.valid_not _ _).mpr vA)
    ((Id.valid_not _ _).mpr vB)
example : isDisjointI 11 sBase xA.not xB.not = true ∧ Tree.isDisjoint tA.not tB.not = true := by decide
/-- a range node against a deeper diagram (the `all` case): `v0 < 3` vs `v1 <= 7 and b0` -/
example : isDisjointI 14 sBase xA xD = false ∧ Tree.isDisjoint tA tD = false := by decide

theorem nv_is_disjoint_history_independent :
    isDisjointI 11 sBase xA.not xB.not = isDisjointI 11 sOther yA.not yB.not :=
  C14.is_disjoint_history_independent 11 sBase sOther xA.not xB.not yA.not yB.not sBase_inv sOther_inv
    ((Id.valid_not _ _).mpr vA) ((Id.valid_not _ _).mpr vB) (by decide) (by decide) (by decide) (by decide)

/-! ### the seeded-bug model: repaired variant on the reachable state (`seeded_bug_repair`), and the
one-predicate soundness on a NON-empty table (second call with the same predicate: memo hit) -/
theorem nv_seeded_bug_repair :
    den (restrictMemoI fT 7 ⟨sAnd2, []⟩ xD).1.st (restrictMemoI fT 7 ⟨sAnd2, []⟩ xD).2 =
      (den sAnd2 xD).restrict fT :=
  (C14.seeded_bug_repair fT 7 sAnd2 xD sAnd2_inv vD2 fuelD).2.2.2
def mm := restrictMemoI fT 7 (⟨sAnd2, []⟩ : MState Nat Nat Nat) xD
theorem mm_ok : MemoOK fT mm.1 ∧ sAnd2.Le mm.1.st :=
  let h := C14.seeded_bug_memo_sound_for_one_predicate fT 7 ⟨sAnd2, []⟩ xD (MemoOK.fresh fT sAnd2_inv) vD2 fuelD
  ⟨h.1, h.2.1⟩
example : mm.1.memo.length = 2 := by decide
theorem nv_memo_one_predicate :
    den (restrictMemoI fT 7 mm.1 xD).1.st (restrictMemoI fT 7 mm.1 xD).2 = (den mm.1.st xD).restrict fT :=
  (C14.seeded_bug_memo_sound_for_one_predicate fT 7 mm.1 xD mm_ok.1 (vD2.mono mm_ok.2) (by decide)).2.2.2

/-! ### schedules mixing `and` and `restrict` steps (three predicates) -/
section Sched
open Pep508.C15

def sched : List (Step' Nat) :=
  [.and xA xB 11, StepR fT xD 7, StepR fF xD 7, .and xA xD 14, StepR fN xD 7]
/-- another interleaving of the same steps -/
def sched2 : List (Step' Nat) :=
  [StepR fF xD 7, .and xA xD 14, StepR fN xD 7, StepR fT xD 7, .and xA xB 11]

instance okDec (s : S) : (st : Step' Nat) → Decidable (st.Ok s)
  | .and _ _ _ => inferInstanceAs (Decidable (_ ∧ _ ∧ _))
  | .restrict _ _ _ => inferInstanceAs (Decidable (_ ∧ _))

instance schedDec' : (s : S) → (l : List (Step' Nat)) → Decidable (Schedulable' s l)
  | _, [] => isTrue trivial
  | s, st :: rest =>
    have := schedDec' (st.run s).1 rest
    inferInstanceAs (Decidable (_ ∧ _))

theorem sched_ok : Schedulable' sBase sched := by decide
theorem sched2_ok : Schedulable' sBase sched2 := by decide
/-- `Schedulable'` is a real constraint (id `ref 9` does not exist; fuel 2 is too small) -/
example : ¬ Schedulable' sBase [StepR fT (.ref 9 false) 7] ∧ ¬ Schedulable' sBase [StepR fT xD 2] := by
  decide

theorem nv_schedule_inv' : (runSchedule' sBase sched).Inv ∧ sBase.Le (runSchedule' sBase sched) :=
  schedule_inv' sBase sBase_inv sched sched_ok
/-- the two interleavings end in different arenas -/
example : (runSchedule' sBase sched).nodes.length = 7 ∧
    (runSchedule' sBase sched).nodes ≠ (runSchedule' sBase sched2).nodes := by decide

/-- a further thread's `restrict fT xD` after either interleaving (in which OTHER predicates were
    applied to the very same id `xD` — the situation of the seeded bug) -/
theorem nv_restrict_independent :
    let s' := runSchedule' sBase sched
    den (restrictI fT 7 s' xD).1 (restrictI fT 7 s' xD).2 = (den sBase xD).restrict fT :=
  restrict_independent_of_interleaving sBase sBase_inv sched sched_ok fT xD vD 7 (by decide)
theorem nv_restrict_independent2 :
    let s' := runSchedule' sBase sched2
    den (restrictI fF 7 s' xD).1 (restrictI fF 7 s' xD).2 = (den sBase xD).restrict fF :=
  restrict_independent_of_interleaving sBase sBase_inv sched2 sched2_ok fF xD vD 7 (by decide)
theorem nv_step_result' :
    let s' := runSchedule' sBase sched2
    den ((Step'.and xB xA 11).run s').1 ((Step'.and xB xA 11).run s').2 = (Step'.and xB xA 11 : Step' Nat).spec sBase :=
  step_result_independent_of_interleaving' sBase sBase_inv sched2 sched2_ok (.and xB xA 11)
    (by decide)

/-- two threads racing for `restrict fT xD`, foreign steps in between -/
def between : List (Step' Nat) := [StepR fF xD 7, .and xA xB 11, StepR fN xD 7]
theorem between_ok : Schedulable' ((StepR fT xD 7).run sBase).1 between := by decide
theorem nv_racing' :
    ((StepR fT xD 7).run (runSchedule' ((StepR fT xD 7).run sBase).1 between)).2 =
      ((StepR fT xD 7).run sBase).2 :=
  racing_threads_same_id' sBase sBase_inv (StepR fT xD 7) (by decide) between between_ok

/-- the `and`-only schedules of C15 are a special case -/
theorem nv_ofStep : runSchedule' sBase (NonVacuityD.sched.map (Step'.ofStep (νb := Nat))) =
    runSchedule sBase NonVacuityD.sched := runSchedule'_ofStep sBase NonVacuityD.sched

end Sched

/-! the class assumptions (`LT`, `DecidableLT`, `DecidableEq` only) are met by the model's own types -/
example (f : VarB → Option Bool) (n : Nat) (x : Id) (vx : Id.Valid (IState.empty : IState VarR VarB Val) x)
    (hn : (den (IState.empty : IState VarR VarB Val) x).size ≤ n) :
    den (restrictI f n (IState.empty : IState VarR VarB Val) x).1
        (restrictI f n (IState.empty : IState VarR VarB Val) x).2 =
      (den (IState.empty : IState VarR VarB Val) x).restrict f :=
  (C14.restrict_refines f n _ x C14.inv_init vx hn).2.2.2

end Pep508.NonVacuityE

section AxiomCheck
open Pep508.NonVacuityE
#print axioms nv_restrict_refines
#print axioms nv_restrict_refines_compl
#print axioms fuel_needed
#print axioms nv_restrict_history_independent
#print axioms nv_restrict_same_id_later
#print axioms nv_restrict_twice
#print axioms nv_is_disjoint_refines_tree
#print axioms nv_is_disjoint_history_independent
#print axioms nv_seeded_bug_repair
#print axioms nv_memo_one_predicate
#print axioms nv_schedule_inv'
#print axioms nv_restrict_independent
#print axioms nv_racing'
end AxiomCheck
