/-
C02 — and / or / negate are the pointwise boolean operations.

Model: `Tree.and`, `Tree.or`, `Tree.not` in `Pep508.Model.Algebra` / `Tree` (the `kind()` view of
`InternerGuard::and / or`, `NodeId::not`).  `ρ` ranges over *all* environments of an arbitrary
linear order of values (so pre-release interpreter versions are covered: nothing about the
value type is used beyond `<`).  `Tree.OK` (edges are valid segments covering the line) follows
from the structural C20 predicate (`Tree.OK_of_wf`), and is itself preserved by the operations.
-/
import Pep508.Proofs.WfOK
set_option linter.unusedSectionVars false
namespace Pep508.C02
open Pep508
variable {νr νb α : Type}
variable [LT α] [LE α] [Std.IsLinearOrder α] [Std.LawfulOrderLT α] [DecidableLT α] [DecidableEq α]
variable [LT νr] [LE νr] [Std.IsLinearOrder νr] [Std.LawfulOrderLT νr] [DecidableLT νr] [DecidableEq νr]
variable [LT νb] [LE νb] [Std.IsLinearOrder νb] [Std.LawfulOrderLT νb] [DecidableLT νb] [DecidableEq νb]

/-- `a.and(b)` evaluates to `a AND b`, in every environment -/
theorem eval_and (ρ : Env νr νb α) (x y : Tree νr νb α) (hx : x.OK) (hy : y.OK) :
    (Tree.and x y).eval ρ = (x.eval ρ && y.eval ρ) :=
  (andF_spec _ x y (by omega) hx hy).1 ρ

theorem OK_and (x y : Tree νr νb α) (hx : x.OK) (hy : y.OK) : (Tree.and x y).OK :=
  (andF_spec _ x y (by omega) hx hy).2

/-- `a.negate()` evaluates to `NOT a` -/
theorem eval_not (ρ : Env νr νb α) (x : Tree νr νb α) (hx : x.OK) : x.not.eval ρ = !x.eval ρ :=
  Tree.eval_not ρ x hx

theorem OK_not (x : Tree νr νb α) (hx : x.OK) : x.not.OK := Tree.OK_not x hx

/-- `a.or(b)` evaluates to `a OR b` -/
theorem eval_or (ρ : Env νr νb α) (x y : Tree νr νb α) (hx : x.OK) (hy : y.OK) :
    (Tree.or x y).eval ρ = (x.eval ρ || y.eval ρ) := by
  unfold Tree.or
  rw [Tree.eval_not ρ _ (OK_and _ _ (Tree.OK_not x hx) (Tree.OK_not y hy)),
    eval_and ρ _ _ (Tree.OK_not x hx) (Tree.OK_not y hy), Tree.eval_not ρ x hx, Tree.eval_not ρ y hy]
  cases x.eval ρ <;> cases y.eval ρ <;> rfl

theorem OK_or (x y : Tree νr νb α) (hx : x.OK) (hy : y.OK) : (Tree.or x y).OK :=
  Tree.OK_not _ (OK_and _ _ (Tree.OK_not x hx) (Tree.OK_not y hy))

/-! identities and annihilators, as *structural* equalities (hence `==` on markers) -/

theorem and_true_left (y : Tree νr νb α) : Tree.and (.leaf true) y = y := by
  simp [Tree.and, andF]

theorem and_true_right (x : Tree νr νb α) : Tree.and x (.leaf true) = x := by
  simp only [Tree.and, andF]; split <;> simp_all

theorem and_false_left (y : Tree νr νb α) : Tree.and (.leaf false) y = .leaf false := by
  simp only [Tree.and, andF]
  by_cases h : y = .leaf true
  · subst h; simp
  · by_cases h2 : (Tree.leaf false : Tree νr νb α) = y
    · subst h2; simp
    · simp [h, h2]

theorem and_false_right (x : Tree νr νb α) : Tree.and x (.leaf false) = .leaf false := by
  simp only [Tree.and, andF]
  by_cases h : x = .leaf true
  · subst h; simp
  · by_cases h2 : x = .leaf false
    · subst h2; simp
    · simp [h, h2]

theorem and_self (x : Tree νr νb α) : Tree.and x x = x := by
  simp only [Tree.and, andF]; split <;> simp_all

theorem and_not_self (x : Tree νr νb α) (hx : x.wf = true) : Tree.and x x.not = .leaf false := by
  simp only [Tree.and, andF]
  by_cases h1 : x = .leaf true
  · subst h1; simp [Tree.not]
  · by_cases h2 : x.not = .leaf true
    · have : x = .leaf false := by
        have := congrArg Tree.not h2; rw [Tree.not_not] at this; simpa [Tree.not] using this
      subst this; simp [Tree.not]
    · have h3 : x ≠ x.not := Tree.ne_not x hx
      simp [h1, h2, h3]

/-- `or` with the constants -/
theorem or_false_left (y : Tree νr νb α) : Tree.or (.leaf false) y = y := by
  simp [Tree.or, Tree.not, and_true_left, Tree.not_not]

theorem or_true_left (y : Tree νr νb α) : Tree.or (.leaf true) y = .leaf true := by
  simp [Tree.or, Tree.not, and_false_left]

/-! any order, grouping and repetition: boolean combinations of markers -/

/-- a boolean combination of given markers -/
inductive BExp (n : Nat) where
  | var (i : Fin n)
  | tt | ff
  | and (a b : BExp n)
  | or (a b : BExp n)
  | not (a : BExp n)

def BExp.build (leaves : Fin n → Tree νr νb α) : BExp n → Tree νr νb α
  | .var i => leaves i
  | .tt => .leaf true
  | .ff => .leaf false
  | .and a b => Tree.and (a.build leaves) (b.build leaves)
  | .or a b => Tree.or (a.build leaves) (b.build leaves)
  | .not a => (a.build leaves).not

def BExp.sem (vals : Fin n → Bool) : BExp n → Bool
  | .var i => vals i
  | .tt => true
  | .ff => false
  | .and a b => a.sem vals && b.sem vals
  | .or a b => a.sem vals || b.sem vals
  | .not a => !a.sem vals

/-- whatever the order, grouping and repetition of `and`/`or`/`negate`, the result evaluates to
    the same boolean combination of the operands' values — for operands from any source that
    yields well-formed diagrams -/
theorem eval_build (ρ : Env νr νb α) (leaves : Fin n → Tree νr νb α) (hl : ∀ i, (leaves i).OK)
    (e : BExp n) : (e.build leaves).OK ∧ (e.build leaves).eval ρ = e.sem (fun i => (leaves i).eval ρ) := by
  induction e with
  | var i => exact ⟨hl i, rfl⟩
  | tt => exact ⟨trivial, rfl⟩
  | ff => exact ⟨trivial, rfl⟩
  | and a b iha ihb =>
    exact ⟨OK_and _ _ iha.1 ihb.1, by simp [BExp.build, BExp.sem, eval_and ρ _ _ iha.1 ihb.1, iha.2, ihb.2]⟩
  | or a b iha ihb =>
    exact ⟨OK_or _ _ iha.1 ihb.1, by simp [BExp.build, BExp.sem, eval_or ρ _ _ iha.1 ihb.1, iha.2, ihb.2]⟩
  | not a iha =>
    exact ⟨OK_not _ iha.1, by simp [BExp.build, BExp.sem, eval_not ρ _ iha.1, iha.2]⟩

/-- operands satisfying the structural C20 predicate are admissible -/
theorem eval_and_of_wf (ρ : Env νr νb α) (x y : Tree νr νb α) (hx : x.wf = true) (hy : y.wf = true) :
    (Tree.and x y).eval ρ = (x.eval ρ && y.eval ρ) :=
  eval_and ρ x y (Tree.OK_of_wf x hx) (Tree.OK_of_wf y hy)



/-! non-vacuity: concrete well-formed operands over `Nat` values and variables -/
section Examples
open Pep508

/-- `v0 < 5`  -/
def exA : Tree Nat Nat Nat :=
  .rng 0 (.cons ⟨.unb, .excl 5⟩ (.leaf true) (.cons ⟨.incl 5, .unb⟩ (.leaf false) .nil))
/-- `v0 >= 3 and b1` -/
def exB : Tree Nat Nat Nat :=
  .rng 0 (.cons ⟨.unb, .excl 3⟩ (.leaf false)
    (.cons ⟨.incl 3, .unb⟩ (.bool 1 (.leaf true) (.leaf false)) .nil))

example : exA.wf = true ∧ exB.wf = true := by decide
example : Tree.and exA exB =
    .rng 0 (.cons ⟨.unb, .excl 3⟩ (.leaf false)
      (.cons ⟨.incl 3, .excl 5⟩ (.bool 1 (.leaf true) (.leaf false))
        (.cons ⟨.incl 5, .unb⟩ (.leaf false) .nil))) := by decide
example : (Tree.and exA exB).wf = true := by decide
end Examples

end Pep508.C02
