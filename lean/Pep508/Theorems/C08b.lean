/-
C08 / C07 / C19, END TO END — the requirement-level theorems with the marker part PROVED instead of assumed.

C08 (`roundtrip_marker`), C07b (`layout_accepted_marker`, `whitespace_irrelevant_marker`) and C19b
(`accepts_marker`, `roundtrip_marker`) all carry the hypothesis "the marker parser, started at the marker
text inside the requirement text with the fuel the requirement parser gives it, returns `st`".  C01b
(`layout_parses_cursor`: every layout of a marker derivation, at any cursor) and C05b (`show_is_layout`,
`layout_wf`, `rebuild_identity`: the text `Display` prints for a diagram is such a layout and denotes the
diagram itself) prove exactly such statements.  Here they are composed (Proofs/Compose.lean).

 (K1) `requirement_roundtrip_full` — a requirement VALUE with a marker DIAGRAM `t` (`ReqValT`), printed by
      `Display` (`showReqT`), parses back to the same name, extras, kind and THE SAME DIAGRAM `t`, with the
      warnings of C05b.  `t = TRUE` (nothing printed): `requirement_roundtrip_true`.  `t = FALSE` is the
      carve-out of the property: `requirement_roundtrip_false` (re-parsed to `falseReparsed ≠ FALSE`).
      One statement for all `t ≠ FALSE`: `requirement_roundtrip`; and as an identity on values after
      trimming the specifier texts (the bare scan leaves the blank before ` ;` in the last one):
      `requirement_roundtrip_identity`.
 (K2) `requirement_layout_full` — the full PEP 508 grammar statement: EVERY whitespace layout `ℓ` of the
      requirement × EVERY well-formed layout `ma` of the marker derivation is accepted, with the marker
      `(ma.denote x).1.getD TRUE` and the warnings `(ma.denote x).2`; and `requirement_layout_independent`:
      two requirement layouts × two marker layouts of the same skeleton give the same requirement.
 (K3) `unnamed_roundtrip_full`, `unnamed_layout_full` — the same for the unnamed parser (C19b).
 (K4) non-vacuity: every theorem instantiated on concrete values, no hypothesis left.

Side conditions added by the composition: NONE beyond the union of the hypotheses of the pieces.
 * the fuel: `4 * |rest| + 3 ≤ 4 * |input| + 16` holds at every cursor satisfying the cursor invariant
   (`fuel_suffices`); the invariant of the marker cursor is C08 `marker_cursor` / C07b `marker_cursor` /
   C19b `marker_cursor`.
 * the marker text may start with blanks (they are the `ws` field of the first atom of `ma`) and may be
   followed by blanks (`ℓ.trail`); it cannot be empty (`MAst.WF` gives a first non-blank char), and the empty
   marker is indeed rejected (`empty_marker_rejected`).
 * the marker diagram's hypotheses are those of C05b `display_parse_roundtrip_sep`, all needed there.
-/
import Pep508.Proofs.Compose
namespace Pep508.C08
open Pep508 Pep508.Cursor

/-! ### vocabulary, restated -/

/-- what `Display` writes for the marker of a requirement value: nothing for TRUE -/
example (spell : Spell) (r : ReqValT) : r.markerText spell =
    if r.marker = .leaf true then none else some (showMarker spell r.marker).toList := rfl

/-- `Display for Requirement` on a value with a marker diagram -/
example (spell : Spell) (r : ReqValT) :
    showReqT spell r = showReq ⟨r.name, r.extras, r.kind, r.markerText spell⟩ := rfl

theorem printed_form_full (spell : Spell) (r : ReqValT) :
    showReqT spell r = r.name ++ (extrasTxt r.extras ++ (kindTxt r.kind ++ markerTxt (r.markerText spell))) :=
  showReqT_eq spell r

/-- `ReqValT.WF` is `ReqVal.WF` of the printed components (the clause "a URL followed by a marker does not
end with `;` / `#`" applies when the marker is not TRUE) -/
example (r : ReqValT) : r.WF ↔ NameWF r.name ∧ (∀ e ∈ r.extras, NameWF e) ∧
    r.kind.WF r.name (decide (r.marker ≠ .leaf true)) :=
  ⟨fun h => ⟨h.name, h.extras, h.kind⟩, fun h => ⟨h.1, h.2.1, h.2.2⟩⟩

example (r : ReqValT) (t : MTree) (w : List WarnKind) :
    r.expOk t w = ⟨normName r.name, r.extras.map normName, r.expKind, t, w⟩ := rfl

/-- the outcome when a marker was parsed: `.ok`, or — URL requirement — "accepted unless the external URL
printer's text ends with `;` / `#`" (F20) -/
example (r : ReqValT) (ok : ReqOk) : r.expThen ok =
    match r.kind with
    | .url u => .urlEndsOk [(';', ⟨.string, r.pos + 3 + strLen u - 1, 1⟩),
        ('#', ⟨.string, r.pos + 3 + strLen u - 1, 1⟩)] ok
    | _ => .ok ok := rfl

/-! ### the marker hypothesis, discharged -/

/-- the fuel handed to the marker parser is enough at every cursor -/
theorem fuel_suffices {c : Cursor} (hi : c.Inv) : 4 * c.rest.length + 3 ≤ 4 * c.input.length + 16 :=
  cursor_fuel hi

/-- C01b at the fuel of the requirement parser: a marker derivation followed by blanks, at any cursor -/
theorem marker_layout_at_cursor (x : Ext) (ma : MAst) (trail : List Char) (hwf : ma.WF)
    (hat : ma.AtomsOK x) (ht : ∀ ch ∈ trail, isWs ch = true) (c : Cursor) (hi : c.Inv)
    (hrest : c.rest = ma.layout ++ trail) :
    parseMarkersCursor x (4 * c.input.length + 16) c =
      .ok ⟨(ma.denote x).1, (ma.denote x).2, c.adv (ma.layout ++ trail)⟩ :=
  markerCursor_layout x ma trail hwf hat ht c hi hrest

/-- **the cursor version of C05b `display_parse_roundtrip_sep`**: the text of a diagram, at any cursor of
any input, followed by blanks up to the end: the marker parser returns the diagram itself -/
theorem marker_display_at_cursor (x : Ext) (hx : C05.ExtReadsPrinted x) (spell : Spell)
    (hs : SpellOK spell) (hsp : ∀ v, spell v ≠ []) (t : MTree)
    (hwf : t.wf = true) (hty : Typed t) (hd : C05.DiagramPrintable t) (ht : t ≠ .leaf true)
    (hf : t ≠ .leaf false) (hb : C05.SepBounds t) (trail : List Char) (htr : ∀ ch ∈ trail, isWs ch = true)
    (c : Cursor) (hi : c.Inv) (hrest : c.rest = (showMarker spell t).toList ++ trail) :
    parseMarkersCursor x (4 * c.input.length + 16) c =
      .ok ⟨some t, dnfWarns (toDnf spell t), c.adv ((showMarker spell t).toList ++ trail)⟩ :=
  markerCursor_show x hx spell hs hsp t hwf hty hd ht hf hb trail htr c hi hrest

/-- the hypothesis `hst` of `C08.roundtrip_marker`, proved -/
theorem roundtrip_marker_hypothesis (x : Ext) (hx : C05.ExtReadsPrinted x) (spell : Spell)
    (hs : SpellOK spell) (hsp : ∀ v, spell v ≠ []) (r : ReqValT)
    (hwf : r.marker.wf = true) (hty : Typed r.marker) (hd : C05.DiagramPrintable r.marker)
    (hb : C05.SepBounds r.marker) (ht : r.marker ≠ .leaf true) (hf : r.marker ≠ .leaf false) :
    ∃ st, parseMarkersCursor x (4 * (showReq (r.toVal spell)).length + 16)
        ⟨showReq (r.toVal spell), (showMarker spell r.marker).toList, (r.toVal spell).markerPos⟩ = .ok st ∧
      st.tree = some r.marker ∧ st.warns = dnfWarns (toDnf spell r.marker) := by
  have hm : (r.toVal spell).marker = some (showMarker spell r.marker).toList := by
    simp [ReqValT.toVal, ReqValT.markerText, ht]
  exact ⟨_, markerCursor_show x hx spell hs hsp r.marker hwf hty hd ht hf hb [] (AllP.nil _) _
    (marker_cursor _ _ hm) (by simp), rfl, rfl⟩

/-! ### (K1) Display then parse returns the same requirement, marker diagram included -/

/-- **K1.** For every well-formed requirement value whose marker diagram `t` is neither TRUE nor FALSE and
satisfies the hypotheses of C05b (well-formed, typed, printable, separated bounds), every spelling table
that spells normalized releases, every external parser that reads printed releases back: the printed
requirement parses — calls exactly the printed specifiers / the printed URL — to the normalized name, the
normalized extras, the same kind and THE SAME MARKER DIAGRAM `t`; warnings: those of the `extra` terms that
are not names.  (For a URL requirement the outcome is `urlEndsOk`, F20.) -/
theorem requirement_roundtrip_full (env : ProcEnv) (x : Ext) (spell : Spell) (r : ReqValT) (hwf : r.WF)
    (hx : C05.ExtReadsPrinted x) (hs : SpellOK spell) (hsp : ∀ v, spell v ≠ [])
    (htw : r.marker.wf = true) (hty : Typed r.marker) (hd : C05.DiagramPrintable r.marker)
    (hb : C05.SepBounds r.marker) (ht : r.marker ≠ .leaf true) (hf : r.marker ≠ .leaf false) :
    parseRequirement env x (showReqT spell r) =
      ⟨r.expCalls, r.expThen (r.expOk r.marker (dnfWarns (toDnf spell r.marker)))⟩ :=
  showReqT_parse env x spell r hwf hx hs hsp htw hty hd hb ht hf

/-- marker TRUE: no marker text is printed; the marker comes back as TRUE (any `Ext`, any table) -/
theorem requirement_roundtrip_true (env : ProcEnv) (x : Ext) (spell : Spell) (r : ReqValT) (hwf : r.WF)
    (ht : r.marker = .leaf true) :
    parseRequirement env x (showReqT spell r) = ⟨r.expCalls, .ok (r.expOk (.leaf true) [])⟩ :=
  showReqT_parse_true env x spell r hwf ht

/-- **the carve-out.** Marker FALSE: `Display` prints ` ; python_version < '0'`; the requirement parses back
with the diagram `falseReparsed`, which is NOT the FALSE terminal, though well formed and false in every
environment -/
theorem requirement_roundtrip_false (env : ProcEnv) (x : Ext) (spell : Spell) (r : ReqValT) (hwf : r.WF)
    (hx : x.pat ['0'] = some (⟨[0], false⟩, false)) (hf : r.marker = .leaf false) :
    parseRequirement env x (showReqT spell r) = ⟨r.expCalls, r.expThen (r.expOk C05.falseReparsed [])⟩ ∧
      C05.falseReparsed ≠ r.marker ∧ C05.falseReparsed.wf = true ∧
      ∀ ρ : Env VarR VarB Val, C05.falseReparsed.eval ρ = r.marker.eval ρ := by
  obtain ⟨_, h2, h3, h4⟩ := C05.false_text_reparses x spell hx
  refine ⟨showReqT_parse_false env x spell r hwf hx hf, by rw [hf]; exact h2, h3, ?_⟩
  intro ρ
  rw [h4 ρ, hf]
  rfl

/-- TRUE and every other marker except FALSE in one statement: the printed requirement is accepted and the
requirement returned carries the marker diagram of the value -/
theorem requirement_roundtrip (env : ProcEnv) (x : Ext) (spell : Spell) (r : ReqValT) (hwf : r.WF)
    (hx : C05.ExtReadsPrinted x) (hs : SpellOK spell) (hsp : ∀ v, spell v ≠ [])
    (htw : r.marker.wf = true) (hty : Typed r.marker) (hd : C05.DiagramPrintable r.marker)
    (hb : C05.SepBounds r.marker) (hf : r.marker ≠ .leaf false) :
    (parseRequirement env x (showReqT spell r)).fin.req? =
      some (r.expOk r.marker (dnfWarns (toDnf spell r.marker))) :=
  showReqT_req env x spell r hwf hx hs hsp htw hty hd hb hf

/-- the recorded specifier texts are the printed ones, except that with a marker the blank before ` ;`
goes into the last one -/
example (r : ReqValT) (ts : List (List Char)) :
    r.recTexts ts = if r.marker ≠ .leaf true then addBlank ts else ts := by
  unfold ReqValT.recTexts ReqValT.hasMarker
  by_cases h : r.marker = .leaf true <;> simp [h]

/-- **Display then parse is the identity on requirement values** (marker other than FALSE): after trimming
the recorded specifier texts (what the external specifier parser does first), the parsed requirement is
the value's own components -/
theorem requirement_roundtrip_identity (env : ProcEnv) (x : Ext) (spell : Spell) (r : ReqValT)
    (hwf : r.WF) (hc : r.SpecsTrimmed)
    (hx : C05.ExtReadsPrinted x) (hs : SpellOK spell) (hsp : ∀ v, spell v ≠ [])
    (htw : r.marker.wf = true) (hty : Typed r.marker) (hd : C05.DiagramPrintable r.marker)
    (hb : C05.SepBounds r.marker) (hf : r.marker ≠ .leaf false) :
    (parseRequirement env x (showReqT spell r)).fin.req?.map ReqOk.trim =
      some ⟨normName r.name, r.extras.map normName, r.kindR, r.marker,
        dnfWarns (toDnf spell r.marker)⟩ :=
  showReqT_components env x spell r hwf hc hx hs hsp htw hty hd hb hf

/-- … in particular the printed requirement is never rejected -/
theorem printed_never_rejected (env : ProcEnv) (x : Ext) (spell : Spell) (r : ReqValT) (hwf : r.WF)
    (hx : C05.ExtReadsPrinted x) (hs : SpellOK spell) (hsp : ∀ v, spell v ≠ [])
    (htw : r.marker.wf = true) (hty : Typed r.marker) (hd : C05.DiagramPrintable r.marker)
    (hb : C05.SepBounds r.marker) :
    ∃ ok, (parseRequirement env x (showReqT spell r)).fin.req? = some ok := by
  by_cases hf : r.marker = .leaf false
  · have h0 : (showRelDots [0]).toList = ['0'] := by decide
    rw [showReqT_parse_false env x spell r hwf (by rw [← h0]; exact hx.plain [0] (by simp)) hf]
    exact ⟨_, r.expThen_req _⟩
  · exact ⟨_, showReqT_req env x spell r hwf hx hs hsp htw hty hd hb hf⟩

/-! ### (K2) requirement layout × marker layout -/

example (r : ReqVal) (m : List Char) : r.withMarker m = ⟨r.name, r.extras, r.kind, some m⟩ := rfl

/-- the outcome: `.ok`; for a URL requirement `urlEndsOk` unless every operand of the marker was dropped -/
example (r : ReqVal) (ℓ : Layout) (tree : Option MTree) (warns : List WarnKind) : expThenL r ℓ tree warns =
    match r.kind with
    | .url u =>
      if tree.isSome then
        .urlEndsOk [(';', ⟨.string, ℓ.kindPos r + 1 + strLen ℓ.afterAt + strLen u - 1, 1⟩),
            ('#', ⟨.string, ℓ.kindPos r + 1 + strLen ℓ.afterAt + strLen u - 1, 1⟩)]
          (expOkL r ℓ (tree.getD (.leaf true)) warns)
      else .ok (expOkL r ℓ (tree.getD (.leaf true)) warns)
    | _ => .ok (expOkL r ℓ (tree.getD (.leaf true)) warns) := rfl

/-- **K2, the full grammar statement.** For every requirement value `r` (C07b `WFL`) and every marker
derivation `ma` (C01b `WF`, atoms `AtomsOK`): the requirement written with ANY whitespace layout `ℓ`, with
the marker written with ITS layout `ma.layout` (after `ℓ.afterSemi`, before `ℓ.trail`), is accepted; the
calls and the components are those of C07b, the marker is `(ma.denote x).1` (TRUE if every operand was
dropped) and the warnings are those of the atoms, left to right -/
theorem requirement_layout_full (env : ProcEnv) (x : Ext) (r : ReqVal) (ℓ : Layout) (ma : MAst)
    (hwf : r.WFL) (hℓ : ℓ.Ws) (hfit : ℓ.Fits (r.withMarker ma.layout)) (hma : ma.WF) (hat : ma.AtomsOK x) :
    parseRequirement env x (layoutReq (r.withMarker ma.layout) ℓ) =
      ⟨expCallsL r ℓ, expThenL r ℓ (ma.denote x).1 (ma.denote x).2⟩ :=
  layoutReq_parse_ast env x (r.withMarker ma.layout) ℓ ma (withMarker_wfl r _ hwf) hℓ hfit rfl hma hat

/-- the same for a value that already carries the text -/
theorem requirement_layout_full' (env : ProcEnv) (x : Ext) (r : ReqVal) (ℓ : Layout) (ma : MAst)
    (hwf : r.WFL) (hℓ : ℓ.Ws) (hfit : ℓ.Fits r) (hm : r.marker = some ma.layout) (hma : ma.WF)
    (hat : ma.AtomsOK x) :
    parseRequirement env x (layoutReq r ℓ) =
      ⟨expCallsL r ℓ, expThenL r ℓ (ma.denote x).1 (ma.denote x).2⟩ :=
  layoutReq_parse_ast env x r ℓ ma hwf hℓ hfit hm hma hat

/-- the hypothesis `hst` of `C07.layout_accepted_marker`, proved -/
theorem layout_marker_hypothesis (x : Ext) (r : ReqVal) (ℓ : Layout) (ma : MAst) (hℓ : ℓ.Ws)
    (hm : r.marker = some ma.layout) (hma : ma.WF) (hat : ma.AtomsOK x) :
    ∃ st, parseMarkersCursor x (4 * (layoutReq r ℓ).length + 16)
        ⟨layoutReq r ℓ, ma.layout ++ ℓ.trail, ℓ.markerPos r⟩ = .ok st ∧
      st.tree = (ma.denote x).1 ∧ st.warns = (ma.denote x).2 :=
  ⟨_, layoutReq_markerCursor x r ℓ ma hℓ hm hma hat, rfl, rfl⟩

/-- the components, specifier texts trimmed, mention neither layout: they are the value's components and
the marker of the SKELETON of the derivation -/
theorem requirement_layout_components (env : ProcEnv) (x : Ext) (r : ReqVal) (ℓ : Layout) (ma : MAst)
    (hwf : r.WFL) (hℓ : ℓ.Ws) (hfit : ℓ.Fits (r.withMarker ma.layout)) (hnt : r.NoTrailWs)
    (hma : ma.WF) (hat : ma.AtomsOK x) :
    (parseRequirement env x (layoutReq (r.withMarker ma.layout) ℓ)).fin.req?.map ReqOk.trim =
      some ⟨normName r.name, r.extras.map normName, r.kindR,
        (ma.skel.denote x).1.getD (.leaf true), (ma.skel.denote x).2⟩ :=
  layoutReq_components_ast env x (r.withMarker ma.layout) ℓ ma (withMarker_wfl r _ hwf) hℓ hfit hnt rfl
    hma hat

/-- **layout independence of the whole**: two whitespace layouts of the requirement × two whitespace
layouts of the marker (same skeleton: same atoms, same `and` / `or` / parenthesis structure) — the same
requirement -/
theorem requirement_layout_independent (env : ProcEnv) (x : Ext) (r : ReqVal) (ℓ₁ ℓ₂ : Layout)
    (ma₁ ma₂ : MAst) (hwf : r.WFL) (h₁ : ℓ₁.Ws) (h₂ : ℓ₂.Ws) (f₁ : ℓ₁.Fits (r.withMarker ma₁.layout))
    (f₂ : ℓ₂.Fits (r.withMarker ma₂.layout)) (hnt : r.NoTrailWs) (hs : ma₁.skel = ma₂.skel)
    (w₁ : ma₁.WF) (w₂ : ma₂.WF) (a₁ : ma₁.AtomsOK x) (a₂ : ma₂.AtomsOK x) :
    (parseRequirement env x (layoutReq (r.withMarker ma₁.layout) ℓ₁)).fin.req?.map ReqOk.trim =
      (parseRequirement env x (layoutReq (r.withMarker ma₂.layout) ℓ₂)).fin.req?.map ReqOk.trim :=
  layoutReq_ast_independent env x r ℓ₁ ℓ₂ ma₁ ma₂ hwf h₁ h₂ f₁ f₂ hnt hs w₁ w₂ a₁ a₂

/-- … more generally two marker derivations with the same marker and warnings (this covers the blanks
INSIDE the comparisons: `atomSem` of `key w1 OP w2 'v'` does not depend on `w1`, `w2`, C01b / C17b) -/
theorem requirement_layout_independent_den (env : ProcEnv) (x : Ext) (r : ReqVal) (ℓ₁ ℓ₂ : Layout)
    (ma₁ ma₂ : MAst) (hwf : r.WFL) (h₁ : ℓ₁.Ws) (h₂ : ℓ₂.Ws) (f₁ : ℓ₁.Fits (r.withMarker ma₁.layout))
    (f₂ : ℓ₂.Fits (r.withMarker ma₂.layout)) (hnt : r.NoTrailWs) (hs : ma₁.denote x = ma₂.denote x)
    (w₁ : ma₁.WF) (w₂ : ma₂.WF) (a₁ : ma₁.AtomsOK x) (a₂ : ma₂.AtomsOK x) :
    (parseRequirement env x (layoutReq (r.withMarker ma₁.layout) ℓ₁)).fin.req?.map ReqOk.trim =
      (parseRequirement env x (layoutReq (r.withMarker ma₂.layout) ℓ₂)).fin.req?.map ReqOk.trim :=
  layoutReq_ast_independent_den env x r ℓ₁ ℓ₂ ma₁ ma₂ hwf h₁ h₂ f₁ f₂ hnt hs w₁ w₂ a₁ a₂

/-- a written requirement with a marker derivation is never rejected -/
theorem layout_full_never_rejected (env : ProcEnv) (x : Ext) (r : ReqVal) (ℓ : Layout) (ma : MAst)
    (hwf : r.WFL) (hℓ : ℓ.Ws) (hfit : ℓ.Fits (r.withMarker ma.layout)) (hma : ma.WF) (hat : ma.AtomsOK x) :
    ∃ ok, (parseRequirement env x (layoutReq (r.withMarker ma.layout) ℓ)).fin.req? = some ok := by
  rw [requirement_layout_full env x r ℓ ma hwf hℓ hfit hma hat, ← expFinL_eq r ℓ ⟨_, _, Cursor.new []⟩]
  exact ⟨_, expFinL_req r ℓ _⟩

/-- Display (K1) is one of the layouts (K2): the printed marker text is the layout of the derivation
`astOfDnf (toDnf spell t)` and the printed requirement is the canonical layout -/
theorem printed_is_full_layout (x : Ext) (hx : C05.ExtReadsPrinted x) (spell : Spell) (hs : SpellOK spell)
    (hsp : ∀ v, spell v ≠ []) (r : ReqValT) (hk : r.kind ≠ .specs [])
    (htw : r.marker.wf = true) (hty : Typed r.marker) (hd : C05.DiagramPrintable r.marker)
    (hb : C05.SepBounds r.marker) (ht : r.marker ≠ .leaf true) (hf : r.marker ≠ .leaf false) :
    let ma := astOfDnf (toDnf spell r.marker)
    let v : ReqVal := ⟨r.name, r.extras, r.kind, none⟩
    showReqT spell r = layoutReq (v.withMarker ma.layout) (Layout.canon (v.withMarker ma.layout)) ∧
      ma.WF ∧ ma.AtomsOK x ∧ ma.denote x = (some r.marker, dnfWarns (toDnf spell r.marker)) := by
  intro ma v
  have hc := C05.contingent_of_sep r.marker htw hb ht hf
  have hnd := C05.nonDegenerate_of_contingent spell hs r.marker htw hty (C05.normBounds_of_sep _ hb) hc
  have hat := C05.atomRT_of_diagram x hx spell hsp r.marker htw hd
  have hl := C05.show_is_layout spell r.marker hf hnd
  have hw := C05.layout_wf x _ hnd hat
  refine ⟨?_, hw.1, hw.2, ?_⟩
  · have : r.toVal spell = v.withMarker ma.layout := by
      simp only [ReqValT.toVal, ReqValT.markerText, ht, if_false, hl, ReqVal.withMarker, v, ma]
    unfold showReqT
    rw [this]
    exact showReq_is_layout _ hk
  · rw [astOfDnf_denote x _ hnd.1 hnd.2 hat, C05.rebuild_identity spell hs r.marker htw hty ht hb]

/-- the marker text cannot be empty: `a;` is rejected ("expected marker value" at the end of the input) —
consistent with `MAst.WF`, which gives every derivation a first non-blank char -/
theorem empty_marker_rejected (env : ProcEnv) (x : Ext) :
    (parseRequirement env x "a;".toList).fin = .err ⟨.string, 2, 1⟩ ∧
    ∀ ma : MAst, ma.WF → ma.layout ≠ [] := by
  refine ⟨?_, ?_⟩
  · rw [show "a;".toList = 'a' :: ";".toList from rfl,
      parse_a env x _ (by intro ch h; simp at h; subst h; decide)]
    rfl
  · intro ma
    induction ma with
    | atom ws a =>
      rintro ⟨_, ch, tl, rfl, _⟩ h
      simp [MAst.layout] at h
    | paren ws1 m ws2 _ => intro _ h; simp [MAst.layout] at h
    | and l ws r ihl _ => intro hw h; simp [MAst.layout] at h; exact ihl hw.1 h.1
    | or l ws r ihl _ => intro hw h; simp [MAst.layout] at h; exact ihl hw.1 h.1

/-! ### (K3) the unnamed parser -/

example (spell : Spell) (u : List Char) (es : List (List Char)) (t : MTree) : showUnnamedT spell u es t =
    showUnnamed u es (if t = .leaf true then none else some (showMarker spell t).toList) := rfl

/-- **K3.** Display then parse for an unnamed requirement (URL text `u` without whitespace and brackets,
extras, marker diagram `t` other than TRUE / FALSE): the same URL text, the same extras, THE SAME DIAGRAM -/
theorem unnamed_roundtrip_full (env : ProcEnv) (x : Ext) (spell : Spell) (u : List Char)
    (es : List (List Char)) (t : MTree) (hne : u ≠ [])
    (hu : ∀ c ∈ u, isWs c = false ∧ c ≠ '[' ∧ c ≠ ']') (hes : ∀ e ∈ es, NameWF e)
    (hx : C05.ExtReadsPrinted x) (hs : SpellOK spell) (hsp : ∀ v, spell v ≠ [])
    (htw : t.wf = true) (hty : Typed t) (hd : C05.DiagramPrintable t)
    (hb : C05.SepBounds t) (ht : t ≠ .leaf true) (hf : t ≠ .leaf false) :
    parseUnnamed env x (showUnnamedT spell u es t) =
      ⟨some (unnamedCall env u 0 (strLen (u ++ extrasTxt es))),
        .ok ⟨u, es.map normName, t, dnfWarns (toDnf spell t)⟩⟩ :=
  showUnnamedT_parse env x spell u es t hne hu hes hx hs hsp htw hty hd hb ht hf

theorem unnamed_roundtrip_true (env : ProcEnv) (x : Ext) (spell : Spell) (u : List Char)
    (es : List (List Char)) (hne : u ≠ []) (hu : ∀ c ∈ u, isWs c = false ∧ c ≠ '[' ∧ c ≠ ']')
    (hes : ∀ e ∈ es, NameWF e) :
    parseUnnamed env x (showUnnamedT spell u es (.leaf true)) =
      ⟨some (unnamedCall env u 0 (strLen (u ++ extrasTxt es))), .ok ⟨u, es.map normName, .leaf true, []⟩⟩ :=
  showUnnamedT_parse_true env x spell u es hne hu hes

/-- the carve-out, unnamed -/
theorem unnamed_roundtrip_false (env : ProcEnv) (x : Ext) (spell : Spell) (u : List Char)
    (es : List (List Char)) (hne : u ≠ [])
    (hu : ∀ c ∈ u, isWs c = false ∧ c ≠ '[' ∧ c ≠ ']') (hes : ∀ e ∈ es, NameWF e)
    (hx : x.pat ['0'] = some (⟨[0], false⟩, false)) :
    parseUnnamed env x (showUnnamedT spell u es (.leaf false)) =
      ⟨some (unnamedCall env u 0 (strLen (u ++ extrasTxt es))),
        .ok ⟨u, es.map normName, C05.falseReparsed, []⟩⟩ :=
  showUnnamedT_parse_false env x spell u es hne hu hes hx

/-- `ws url[e1,…] ; marker trail` for every layout `ma` of a marker derivation (leading blanks of the
marker are in `ma`, trailing blanks in `trail`) -/
theorem unnamed_layout_full (env : ProcEnv) (x : Ext) (ws u : List Char) (es : List (List Char)) (ma : MAst)
    (trail : List Char) (hws : ∀ c ∈ ws, isWs c = true) (hne : u ≠ [])
    (hu : ∀ c ∈ u, isWs c = false ∧ c ≠ '[' ∧ c ≠ ']') (hes : ∀ e ∈ es, NameWF e)
    (hma : ma.WF) (hat : ma.AtomsOK x) (ht : ∀ ch ∈ trail, isWs ch = true) :
    parseUnnamed env x (ws ++ ((u ++ extrasTxt es) ++ markerTxt (some (ma.layout ++ trail)))) =
      ⟨some (unnamedCall env u (strLen ws) (strLen (u ++ extrasTxt es))),
        .ok ⟨u, es.map normName, (ma.denote x).1.getD (.leaf true), (ma.denote x).2⟩⟩ :=
  parseUnnamed_ast env x ws u es ma trail hws hne hu hes hma hat ht

/-! ### (K4) non-vacuity: every hypothesis discharged on concrete values -/

/-- `os_name == 'a'` as a diagram -/
def tA : MTree := expression (.string ⟨1⟩ .eq "a")

private theorem tA_eq : tA =
    (.rng (.str ⟨1⟩) (.cons ⟨.unb, .excl (.str "a")⟩ (.leaf false)
      (.cons ⟨.incl (.str "a"), .incl (.str "a")⟩ (.leaf true)
        (.cons ⟨.excl (.str "a"), .unb⟩ (.leaf false) .nil))) : MTree) := by decide

theorem tA_typed : Typed tA := by rw [tA_eq]; simp [Typed, TypedE, Ivl.Kind, Bnd.Kind, kindOf]

theorem tA_printable : C05.DiagramPrintable tA := by
  have hq : Quotable "a" := by unfold Quotable; decide
  rw [tA_eq]
  simp [C05.DiagramPrintable, DiagAll, EdgesAll, ModernKey, Ivl.Kind, Bnd.Kind, Val.strOf, hq]

theorem tA_sep : C05.SepBounds tA := by
  have hsep : SepV (.str "a") := by show "a".toList.getLast? ≠ some nulChar; decide
  rw [tA_eq]
  simp [C05.SepBounds, Tree.AllB, Edges.AllB, Ivl.Kind, Bnd.Kind, hsep]

/-- name `a-b`, extra `x`, specifier `>=1`, marker `os_name == 'a'` -/
def rT1 : ReqValT := ⟨"a-b".toList, ["x".toList], .specs [">=1".toList], tA⟩

theorem rT1_wf : rT1.WF :=
  ⟨nameOk_wf (by decide), by intro e h; simp [rT1] at h; subst h; exact nameOk_wf (by decide),
   ⟨⟨'>', _, _, rfl, by decide⟩, by unfold SpecTxt; decide⟩⟩

theorem rT1_shown : showReqT spellPlain rT1 = "a-b[x]>=1 ; os_name == 'a'".toList := by decide

/-- **K1 on a concrete value**, with the concrete external parser `xRead` and table `spellPlain` of C05b:
no hypothesis left.  The recorded specifier text is `>=1 ` (blank before ` ;`). -/
theorem k1_instance (env : ProcEnv) :
    parseRequirement env C05.xRead "a-b[x]>=1 ; os_name == 'a'".toList =
      ⟨[.spec ">=1 ".toList 6 4],
        .ok ⟨[97, 45, 98], [[120]], .specs [">=1 ".toList], expression (.string ⟨1⟩ .eq "a"), []⟩⟩ := by
  have h := requirement_roundtrip_full env C05.xRead spellPlain rT1 rT1_wf C05.xRead_readsPrinted
    spellPlain_ok.1 spellPlain_ok.2 (by decide) tA_typed tA_printable tA_sep (by decide) (by decide)
  have hw : dnfWarns (toDnf spellPlain rT1.marker) = [] := by decide
  rw [rT1_shown, hw] at h
  rw [h]
  rfl

/-- … and as an identity on the value, specifier texts trimmed -/
theorem k1_instance_identity (env : ProcEnv) :
    (parseRequirement env C05.xRead "a-b[x]>=1 ; os_name == 'a'".toList).fin.req?.map ReqOk.trim =
      some ⟨[97, 45, 98], [[120]], .specs [">=1".toList], tA, []⟩ := by
  have h := requirement_roundtrip_identity env C05.xRead spellPlain rT1 rT1_wf
    (by intro t ht; simp at ht; subst ht; exact ⟨by decide, by decide⟩)
    C05.xRead_readsPrinted spellPlain_ok.1 spellPlain_ok.2 (by decide) tA_typed tA_printable tA_sep
    (by decide)
  have hw : dnfWarns (toDnf spellPlain rT1.marker) = [] := by decide
  rw [rT1_shown, hw] at h
  rw [h]
  rfl

/-- name `a-b`, URL, marker `os_name == 'a'`: the outcome is the F20 `urlEndsOk` -/
def rT2 : ReqValT := ⟨"a-b".toList, [], .url "https://e.x/p".toList, tA⟩

theorem rT2_wf : rT2.WF :=
  ⟨nameOk_wf (by decide), by intro e h; simp [rT2] at h, ⟨by decide, by decide, fun _ => by decide⟩⟩

theorem k1_instance_url (env : ProcEnv) :
    parseRequirement env C05.xRead "a-b @ https://e.x/p ; os_name == 'a'".toList =
      ⟨[.url "https://e.x/p".toList 6 13],
        .urlEndsOk [(';', ⟨.string, 18, 1⟩), ('#', ⟨.string, 18, 1⟩)]
          ⟨[97, 45, 98], [], .url "https://e.x/p".toList, tA, []⟩⟩ := by
  have h := requirement_roundtrip_full env C05.xRead spellPlain rT2 rT2_wf C05.xRead_readsPrinted
    spellPlain_ok.1 spellPlain_ok.2 (by decide) tA_typed tA_printable tA_sep (by decide) (by decide)
  have hs : showReqT spellPlain rT2 = "a-b @ https://e.x/p ; os_name == 'a'".toList := by decide
  have hw : dnfWarns (toDnf spellPlain rT2.marker) = [] := by decide
  rw [hs, hw] at h
  rw [h]
  rfl

/-- the carve-out on a concrete value: `a-b ; python_version < '0'` comes back with `falseReparsed` -/
theorem k1_instance_false (env : ProcEnv) :
    parseRequirement env C05.xRead "a-b ; python_version < '0'".toList =
      ⟨[], .ok ⟨[97, 45, 98], [], .none, C05.falseReparsed, []⟩⟩ ∧ C05.falseReparsed ≠ .leaf false := by
  have h := requirement_roundtrip_false env C05.xRead spellPlain ⟨"a-b".toList, [], .none, .leaf false⟩
    ⟨nameOk_wf (by decide), by intro e h; simp at h, looksLikeArchive_of_no_dot _ (by decide)⟩
    (by decide) rfl
  have hs : showReqT spellPlain ⟨"a-b".toList, [], .none, .leaf false⟩ =
      "a-b ; python_version < '0'".toList := by decide
  rw [hs] at h
  exact ⟨h.1, h.2.1⟩

/-! #### K2: one value, two requirement layouts × two marker layouts -/

private def osName : List Char := "os_name".toList

/-- `os_name w1 == w2 q v q` -/
private def cmp (w1 w2 : List Char) (q : Char) (v : List Char) : List Char :=
  atomKOV osName w1 ['=', '='] w2 q v

private theorem cmp_ok (x : Ext) (w1 w2 : List Char) (q : Char) (v : List Char)
    (hw1 : AllP isWs w1) (hw2 : AllP isWs w2) (hq : isQuote q = true) (hv : AllP (fun ch => ch != q) v) :
    AtomOK x (cmp w1 w2 q v) ∧
      atomSem x (cmp w1 w2 q v) = (some (.string ⟨1⟩ .eq (String.ofList v)), []) ∧
      endsQuote (cmp w1 w2 q v) = true :=
  C01.atom_key_op_string x (k := osName) (kv := .strKey ⟨1⟩) (op := .eq) (by decide)
    ⟨'o', _, rfl, by decide⟩ (by decide) hw1 (by decide) (by decide) hw2 hq hv

private theorem cmp_head (w1 w2 : List Char) (q : Char) (v : List Char) : AtomHead (cmp w1 w2 q v) :=
  ⟨'o', _, rfl, by decide, by decide⟩

/-- `os_name=='a'and "b" ==os_name`-like layouts of one derivation: tight … -/
def maTight : MAst :=
  .and (.atom [] (cmp [] [] '\'' ['a'])) [] (.paren [] (.atom [] (cmp [] [] '"' ['b'])) [])

/-- … and loose (blanks, a tab, a line break) -/
def maLoose : MAst :=
  .and (.atom [' '] (cmp [' '] ['\t'] '\'' ['a'])) [' ', ' ']
    (.paren ['\n'] (.atom [' '] (cmp [' '] [] '"' ['b'])) [' '])

example : maTight.layout = "os_name=='a'and(os_name==\"b\")".toList := by decide
example : maLoose.layout = " os_name ==\t'a'  and\n( os_name ==\"b\" )".toList := by decide
/-- the blanks INSIDE the comparisons differ too, so the skeletons differ; the markers agree -/
example : maTight.skel ≠ maLoose.skel := by
  intro h
  have h1 : MSkel.atom (cmp [] [] '\'' ['a']) = MSkel.atom (cmp [' '] ['\t'] '\'' ['a']) :=
    (MSkel.and.inj h).1
  exact absurd (MSkel.atom.inj h1) (by decide)

private theorem q1 : isQuote '\'' = true := by decide
private theorem q2 : isQuote '"' = true := by decide

theorem maTight_ok (x : Ext) : maTight.WF ∧ maTight.AtomsOK x ∧
    maTight.denote x = (some (Tree.and tA (expression (.string ⟨1⟩ .eq "b"))), []) := by
  have ha := cmp_ok x [] [] '\'' ['a'] (by decide) (by decide) q1 (by decide)
  have hb := cmp_ok x [] [] '"' ['b'] (by decide) (by decide) q2 (by decide)
  refine ⟨⟨⟨AllP.nil _, cmp_head _ _ _ _⟩, ⟨AllP.nil _, AllP.nil _, AllP.nil _, cmp_head _ _ _ _⟩, rfl, rfl,
    AllP.nil _, .inl ha.2.2, ⟨'(', _, rfl, by decide⟩⟩, ⟨ha.1, hb.1⟩, ?_⟩
  simp only [maTight, MAst.denote, ha.2.1, hb.2.1]
  rfl

theorem maLoose_ok (x : Ext) : maLoose.WF ∧ maLoose.AtomsOK x ∧
    maLoose.denote x = (some (Tree.and tA (expression (.string ⟨1⟩ .eq "b"))), []) := by
  have ha := cmp_ok x [' '] ['\t'] '\'' ['a'] (by decide) (by decide) q1 (by decide)
  have hb := cmp_ok x [' '] [] '"' ['b'] (by decide) (by decide) q2 (by decide)
  refine ⟨⟨⟨by decide, cmp_head _ _ _ _⟩, ⟨by decide, by decide, by decide, cmp_head _ _ _ _⟩, rfl, rfl,
    by decide, .inl ha.2.2, ⟨'\n', _, rfl, by decide⟩⟩, ⟨ha.1, hb.1⟩, ?_⟩
  simp only [maLoose, MAst.denote, ha.2.1, hb.2.1]
  rfl

/-- the value of C07b (`a`, extras `x`, `y`, specifiers `>= 1`, `< 2`), without its marker -/
def v0 : ReqVal := ⟨C07.v1.name, C07.v1.extras, C07.v1.kind, none⟩

theorem v0_wf : v0.WFL := ⟨C07.v1_wf.name, C07.v1_wf.extras, C07.v1_wf.kind⟩

example : layoutReq (v0.withMarker maLoose.layout) C07.l1 =
    " a [ x , y ]  ( >= 1\t,\n< 2 ) ;  os_name ==\t'a'  and\n( os_name ==\"b\" ) ".toList := by decide
example : layoutReq (v0.withMarker maTight.layout) C07.l0 =
    "a[x,y]>= 1,< 2;os_name=='a'and(os_name==\"b\")".toList := by decide

/-- **K2 on a concrete layout × layout**, for EVERY external parser: no hypothesis left -/
theorem k2_instance_loose (env : ProcEnv) (x : Ext) :
    parseRequirement env x
        " a [ x , y ]  ( >= 1\t,\n< 2 ) ;  os_name ==\t'a'  and\n( os_name ==\"b\" ) ".toList =
      ⟨[.spec ">= 1\t".toList 16 5, .spec "\n< 2 ".toList 22 5],
        .ok ⟨[97], [[120], [121]], .specs [">= 1\t".toList, "\n< 2 ".toList],
          Tree.and tA (expression (.string ⟨1⟩ .eq "b")), []⟩⟩ := by
  obtain ⟨hw, ha, hd⟩ := maLoose_ok x
  have h := requirement_layout_full env x v0 C07.l1 maLoose v0_wf C07.l1_ws trivial hw ha
  have hs : layoutReq (v0.withMarker maLoose.layout) C07.l1 =
      " a [ x , y ]  ( >= 1\t,\n< 2 ) ;  os_name ==\t'a'  and\n( os_name ==\"b\" ) ".toList := by decide
  rw [hs, hd] at h
  rw [h]
  rfl

theorem k2_instance_tight (env : ProcEnv) (x : Ext) :
    parseRequirement env x "a[x,y]>= 1,< 2;os_name=='a'and(os_name==\"b\")".toList =
      ⟨[.spec ">= 1".toList 6 4, .spec "< 2".toList 11 3],
        .ok ⟨[97], [[120], [121]], .specs [">= 1".toList, "< 2".toList],
          Tree.and tA (expression (.string ⟨1⟩ .eq "b")), []⟩⟩ := by
  obtain ⟨hw, ha, hd⟩ := maTight_ok x
  have h := requirement_layout_full env x v0 C07.l0 maTight v0_wf C07.l0_ws trivial hw ha
  have hs : layoutReq (v0.withMarker maTight.layout) C07.l0 =
      "a[x,y]>= 1,< 2;os_name=='a'and(os_name==\"b\")".toList := by decide
  rw [hs, hd] at h
  rw [h]
  rfl

/-- layout independence on the two written forms -/
theorem k2_instance_independent (env : ProcEnv) (x : Ext) :
    (parseRequirement env x
        " a [ x , y ]  ( >= 1\t,\n< 2 ) ;  os_name ==\t'a'  and\n( os_name ==\"b\" ) ".toList).fin.req?.map
        ReqOk.trim =
      (parseRequirement env x "a[x,y]>= 1,< 2;os_name=='a'and(os_name==\"b\")".toList).fin.req?.map
        ReqOk.trim := by
  have h := requirement_layout_independent_den env x v0 C07.l1 C07.l0 maLoose maTight v0_wf C07.l1_ws
    C07.l0_ws trivial trivial C07.v1_notrail (by rw [(maLoose_ok x).2.2, (maTight_ok x).2.2]) (maLoose_ok x).1 (maTight_ok x).1 (maLoose_ok x).2.1
    (maTight_ok x).2.1
  have hs1 : layoutReq (v0.withMarker maLoose.layout) C07.l1 =
      " a [ x , y ]  ( >= 1\t,\n< 2 ) ;  os_name ==\t'a'  and\n( os_name ==\"b\" ) ".toList := by decide
  have hs2 : layoutReq (v0.withMarker maTight.layout) C07.l0 =
      "a[x,y]>= 1,< 2;os_name=='a'and(os_name==\"b\")".toList := by decide
  rw [hs1, hs2] at h
  exact h

/-! #### K3 -/

/-- `./p/a.whl[x] ; os_name == 'a'`, unnamed: same URL text, extras, marker diagram -/
theorem k3_instance (env : ProcEnv) :
    parseUnnamed env C05.xRead "./p/a.whl[x] ; os_name == 'a'".toList =
      ⟨some ⟨.path, "./p/a.whl".toList, 0, 12⟩, .ok ⟨"./p/a.whl".toList, [[120]], tA, []⟩⟩ := by
  have h := unnamed_roundtrip_full env C05.xRead spellPlain "./p/a.whl".toList ["x".toList] tA
    (by simp) (by decide) (by intro e h; simp at h; subst h; exact nameOk_wf (by decide))
    C05.xRead_readsPrinted spellPlain_ok.1 spellPlain_ok.2 (by decide) tA_typed tA_printable tA_sep
    (by decide) (by decide)
  have hs : showUnnamedT spellPlain "./p/a.whl".toList ["x".toList] tA =
      "./p/a.whl[x] ; os_name == 'a'".toList := by decide
  have hw : dnfWarns (toDnf spellPlain tA) = [] := by decide
  rw [hs, hw] at h
  rw [h]
  rfl

/-- ` ./p/a.whl[x] ; <loose marker layout> ` -/
theorem k3_instance_layout (env : ProcEnv) (x : Ext) :
    ∃ call, parseUnnamed env x
        (" ./p/a.whl[x] ; ".toList ++ (" os_name ==\t'a'  and\n( os_name ==\"b\" )".toList ++ " ".toList)) =
      ⟨some call, .ok ⟨"./p/a.whl".toList, [[120]], Tree.and tA (expression (.string ⟨1⟩ .eq "b")), []⟩⟩ := by
  obtain ⟨hw, ha, hd⟩ := maLoose_ok x
  have h := unnamed_layout_full env x " ".toList "./p/a.whl".toList ["x".toList] maLoose [' ']
    (by decide) (by simp) (by decide) (by intro e h; simp at h; subst h; exact nameOk_wf (by decide))
    hw ha (by decide)
  rw [hd] at h
  have hs : " ".toList ++ (("./p/a.whl".toList ++ extrasTxt ["x".toList]) ++
      markerTxt (some (maLoose.layout ++ [' ']))) =
      " ./p/a.whl[x] ; ".toList ++ (" os_name ==\t'a'  and\n( os_name ==\"b\" )".toList ++ " ".toList) := by
    decide
  rw [hs] at h
  exact ⟨_, h⟩

end Pep508.C08

section
open Pep508.C08
#print axioms Pep508.C08.fuel_suffices
#print axioms Pep508.C08.marker_layout_at_cursor
#print axioms Pep508.C08.marker_display_at_cursor
#print axioms Pep508.C08.roundtrip_marker_hypothesis
#print axioms Pep508.C08.requirement_roundtrip_full
#print axioms Pep508.C08.requirement_roundtrip_true
#print axioms Pep508.C08.requirement_roundtrip_false
#print axioms Pep508.C08.requirement_roundtrip
#print axioms Pep508.C08.requirement_roundtrip_identity
#print axioms Pep508.C08.printed_never_rejected
#print axioms Pep508.C08.requirement_layout_full
#print axioms Pep508.C08.requirement_layout_full'
#print axioms Pep508.C08.layout_marker_hypothesis
#print axioms Pep508.C08.requirement_layout_components
#print axioms Pep508.C08.requirement_layout_independent
#print axioms Pep508.C08.requirement_layout_independent_den
#print axioms Pep508.C08.layout_full_never_rejected
#print axioms Pep508.C08.printed_is_full_layout
#print axioms Pep508.C08.empty_marker_rejected
#print axioms Pep508.C08.unnamed_roundtrip_full
#print axioms Pep508.C08.unnamed_roundtrip_true
#print axioms Pep508.C08.unnamed_roundtrip_false
#print axioms Pep508.C08.unnamed_layout_full
#print axioms Pep508.C08.k1_instance
#print axioms Pep508.C08.k1_instance_identity
#print axioms Pep508.C08.k1_instance_url
#print axioms Pep508.C08.k1_instance_false
#print axioms Pep508.C08.k2_instance_loose
#print axioms Pep508.C08.k2_instance_tight
#print axioms Pep508.C08.k2_instance_independent
#print axioms Pep508.C08.k3_instance
#print axioms Pep508.C08.k3_instance_layout
end
