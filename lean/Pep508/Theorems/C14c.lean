/-
C14c — "results do not depend on what the process did before", for the last two operations of
the interner: `simplify_python_versions` and `complexify_python_versions` on ids
(`simplifyPyI`, `complexifyPyI`, Model/InternerPy.lean; `and` / `or` / `create_node`: C14.lean;
`restrict` / `not` / `is_disjoint`: C14b.lean).

Both mirror the unmodified Rust code: no memo table; every node whose variable is not
`python_full_version` is rebuilt bottom-up through `Edges::map` (complement bit of the parent
resolved on each child) and `create_node`; the `python_full_version` node is rebuilt from its RAW
stored edges and the operand's complement bit is put back afterwards (`.negate(i)`); `complexify`
conjoins (`and`, with the AND memo) with the range node when the node's variable orders after
`python_full_version`.  Under `IState.Inv`, for every range `(lo, hi)` (valid or not, bounded or not):
 * `simplifyPyI` denotes `Tree.simplifyPy` and `complexifyPyI` denotes `Tree.complexifyPy` of the
   operand's diagram, whatever the arena and the AND memo contain (`simplify_refines`,
   `complexify_refines`); NO hypothesis beyond invariant / valid operand / fuel is needed — in
   particular the diagram need not be well-formed;
 * two interners with different histories give results with the same diagram
   (`simplify_history_independent`, `complexify_history_independent`); in a later state of the same
   interner the very same id comes back (`simplify_same_id_later`, `complexify_same_id_later`);
 * `simplifyPyI` leaves the AND memo alone (`simplify_cache_untouched`).
Fuel: `size ≤ fuel` for simplify, `size + 7 < fuel` for complexify (its `and` runs with the same fuel
on the operand and a range node of size ≤ 7).
Panic sites (`new.first().unwrap()`, `assert!(!new.is_empty())`): the model answers FALSE for the
whole call, like the tree model.  They are unreachable on well-formed diagrams
(`simplify_panic_unreachable`, `complexify_panic_unreachable`); `PyWitness.panic_site` shows on an
arena satisfying `Inv` (whose node is not a partition) that answering through
`create_node(empty).negate(i)` instead would break the refinement for a complemented operand.
-/
import Pep508.Proofs.InternerPy
import Pep508.Proofs.WfUnary
import Pep508.Model.Marker
set_option linter.unusedSectionVars false
namespace Pep508.C14
open Pep508

section Weak
variable {νr νb α : Type}
variable [LT α] [DecidableLT α] [DecidableEq α]
variable [LT νr] [DecidableLT νr] [DecidableEq νr] [LT νb] [DecidableLT νb] [DecidableEq νb]

/-- the id-level `simplify_python_versions` (hash-consing, complemented edges, no memo) refines
    `Tree.simplifyPy` -/
theorem simplify_refines (pv : νr) (lo hi : Bnd α) (n : Nat) (s : IState νr νb α) (x : Id)
    (hs : s.Inv) (vx : Id.Valid s x) (hn : (den s x).size ≤ n) :
    (simplifyPyI pv lo hi n s x).1.Inv ∧ s.Le (simplifyPyI pv lo hi n s x).1 ∧
      Id.Valid (simplifyPyI pv lo hi n s x).1 (simplifyPyI pv lo hi n s x).2 ∧
      den (simplifyPyI pv lo hi n s x).1 (simplifyPyI pv lo hi n s x).2 = (den s x).simplifyPy pv lo hi :=
  simplifyPyI_refines pv lo hi n s x hs vx hn

/-- the id-level `complexify_python_versions` refines `Tree.complexifyPy` -/
theorem complexify_refines (pv : νr) (lo hi : Bnd α) (n : Nat) (s : IState νr νb α) (x : Id)
    (hs : s.Inv) (vx : Id.Valid s x) (hn : (den s x).size + 7 < n) :
    (complexifyPyI pv lo hi n s x).1.Inv ∧ s.Le (complexifyPyI pv lo hi n s x).1 ∧
      Id.Valid (complexifyPyI pv lo hi n s x).1 (complexifyPyI pv lo hi n s x).2 ∧
      den (complexifyPyI pv lo hi n s x).1 (complexifyPyI pv lo hi n s x).2 =
        (den s x).complexifyPy pv lo hi :=
  complexifyPyI_refines pv lo hi n s x hs vx hn

theorem simplify_cache_untouched (pv : νr) (lo hi : Bnd α) (n : Nat) (s : IState νr νb α) (x : Id) :
    (simplifyPyI pv lo hi n s x).1.cache = s.cache := simplifyPyI_cache pv lo hi n s x

/-- two arenas with arbitrary histories in which `x₁`, `x₂` denote the same diagram: the results
    denote the same diagram -/
theorem simplify_history_independent (pv : νr) (lo hi : Bnd α) (n₁ n₂ : Nat)
    (s₁ s₂ : IState νr νb α) (x₁ x₂ : Id) (h₁ : s₁.Inv) (h₂ : s₂.Inv)
    (vx₁ : Id.Valid s₁ x₁) (vx₂ : Id.Valid s₂ x₂) (hx : den s₁ x₁ = den s₂ x₂)
    (hn₁ : (den s₁ x₁).size ≤ n₁) (hn₂ : (den s₂ x₂).size ≤ n₂) :
    den (simplifyPyI pv lo hi n₁ s₁ x₁).1 (simplifyPyI pv lo hi n₁ s₁ x₁).2 =
      den (simplifyPyI pv lo hi n₂ s₂ x₂).1 (simplifyPyI pv lo hi n₂ s₂ x₂).2 :=
  simplifyPyI_history_independent pv lo hi n₁ n₂ s₁ s₂ x₁ x₂ h₁ h₂ vx₁ vx₂ hx hn₁ hn₂

theorem complexify_history_independent (pv : νr) (lo hi : Bnd α) (n₁ n₂ : Nat)
    (s₁ s₂ : IState νr νb α) (x₁ x₂ : Id) (h₁ : s₁.Inv) (h₂ : s₂.Inv)
    (vx₁ : Id.Valid s₁ x₁) (vx₂ : Id.Valid s₂ x₂) (hx : den s₁ x₁ = den s₂ x₂)
    (hn₁ : (den s₁ x₁).size + 7 < n₁) (hn₂ : (den s₂ x₂).size + 7 < n₂) :
    den (complexifyPyI pv lo hi n₁ s₁ x₁).1 (complexifyPyI pv lo hi n₁ s₁ x₁).2 =
      den (complexifyPyI pv lo hi n₂ s₂ x₂).1 (complexifyPyI pv lo hi n₂ s₂ x₂).2 :=
  complexifyPyI_history_independent pv lo hi n₁ n₂ s₁ s₂ x₁ x₂ h₁ h₂ vx₁ vx₂ hx hn₁ hn₂

/-- the same arena grown (by anything): the same id comes out -/
theorem simplify_same_id_later (pv : νr) (lo hi : Bnd α) (n m : Nat) (s s' : IState νr νb α) (x : Id)
    (hs : s.Inv) (hs' : s'.Inv) (vx : Id.Valid s x) (hle : (simplifyPyI pv lo hi n s x).1.Le s')
    (hn : (den s x).size ≤ n) (hm : (den s x).size ≤ m) :
    (simplifyPyI pv lo hi m s' x).2 = (simplifyPyI pv lo hi n s x).2 :=
  simplifyPyI_same_id pv lo hi n m s s' x hs hs' vx hle hn hm

theorem complexify_same_id_later (pv : νr) (lo hi : Bnd α) (n m : Nat) (s s' : IState νr νb α) (x : Id)
    (hs : s.Inv) (hs' : s'.Inv) (vx : Id.Valid s x) (hle : (complexifyPyI pv lo hi n s x).1.Le s')
    (hn : (den s x).size + 7 < n) (hm : (den s x).size + 7 < m) :
    (complexifyPyI pv lo hi m s' x).2 = (complexifyPyI pv lo hi n s x).2 :=
  complexifyPyI_same_id pv lo hi n m s s' x hs hs' vx hle hn hm

/-- `simplify` after `complexify` in the interner is `simplifyPy ∘ complexifyPy` on the diagram
    (with C12c `simplifyPy_complexifyPy_all`: the operand's simplification) -/
theorem simplify_after_complexify (pv : νr) (lo hi : Bnd α) (n m : Nat) (s : IState νr νb α) (x : Id)
    (hs : s.Inv) (vx : Id.Valid s x) (hn : (den s x).size + 7 < n)
    (hm : ((den s x).complexifyPy pv lo hi).size ≤ m) :
    den (simplifyPyI pv lo hi m (complexifyPyI pv lo hi n s x).1 (complexifyPyI pv lo hi n s x).2).1
        (simplifyPyI pv lo hi m (complexifyPyI pv lo hi n s x).1 (complexifyPyI pv lo hi n s x).2).2 =
      ((den s x).complexifyPy pv lo hi).simplifyPy pv lo hi := by
  obtain ⟨i1, _, v1, d1⟩ := complexifyPyI_refines pv lo hi n s x hs vx hn
  rw [(simplifyPyI_refines pv lo hi m _ _ i1 v1 (by rw [d1]; exact hm)).2.2.2, d1]

end Weak

/-! ### the panic sites are unreachable on well-formed diagrams -/
section Strong
variable {νr νb α : Type}
variable [LT α] [LE α] [Std.IsLinearOrder α] [Std.LawfulOrderLT α] [DecidableLT α] [DecidableEq α]
variable [LT νr] [LE νr] [Std.IsLinearOrder νr] [Std.LawfulOrderLT νr] [DecidableLT νr] [DecidableEq νr]
variable [LT νb] [LE νb] [Std.IsLinearOrder νb] [Std.LawfulOrderLT νb] [DecidableLT νb] [DecidableEq νb]

/-- the edges of a well-formed range node, read under the operand's complement bit, partition -/
theorem node_edges_partition {s : IState νr νb α} (hs : s.Inv) (i : Nat) (c : Bool) (v : νr)
    (es : List (Ivl α × Id)) (hn : s.nodes[i]? = some (.rng v es))
    (hw : (den s (.ref i c)).wf = true) :
    PartL .unb (denE s (negE (.ref i c) es)) ∧ AdjNe (denE s (negE (.ref i c) es)) := by
  have ux := den_ref_neg hs.wf c hn
  simp only [denNodeNeg] at ux
  rw [ux] at hw
  simp only [Tree.wf, Bool.and_eq_true, Edges.toList_ofList] at hw
  exact (partitionFrom_iff _ _).mp hw.1.2

/-- `new.first().unwrap()` of `simplify_python_versions` does not panic on a well-formed diagram
    (well-formedness is hereditary and preserved by the operation: `wf_simplifyPy`) -/
theorem simplify_panic_unreachable {s : IState νr νb α} (hs : s.Inv) (i : Nat) (c : Bool) (v : νr)
    (es : List (Ivl α × Id)) (hn : s.nodes[i]? = some (.rng v es))
    (hw : (den s (.ref i c)).wf = true) (lo hi : Bnd α) (hv : (Ivl.mk lo hi).valid = true) :
    (simplifyEdgesI lo hi es).isEmpty = false := by
  obtain ⟨hp, ha⟩ := node_edges_partition hs i c v es hn hw
  have h := simplifyEdges_ne_nil lo hi _ hv hp ha
  rw [← simplifyEdgesI_den] at h
  cases hh : simplifyEdgesI lo hi es with
  | nil => rw [hh] at h; exact absurd rfl h
  | cons e rest => rfl

/-- `assert!(!new.is_empty())` of `complexify_python_versions` does not fire on a well-formed diagram -/
theorem complexify_panic_unreachable {s : IState νr νb α} (hs : s.Inv) (i : Nat) (c : Bool) (v : νr)
    (es : List (Ivl α × Id)) (hn : s.nodes[i]? = some (.rng v es))
    (hw : (den s (.ref i c)).wf = true) (lo hi : Bnd α) (hv : (Ivl.mk lo hi).valid = true) :
    (complexifyEdgesI (Id.ff.negate (.ref i c)) lo hi es).isEmpty = false := by
  obtain ⟨hp, ha⟩ := node_edges_partition hs i c v es hn hw
  have h := Part_ne_nil (Part_complexifyEdges lo hi _ hv hp ha).1
  have cv : ∀ e ∈ es, Id.Valid s e.2 := fun e he =>
    ((WF.child_valid hs.wf hn).2 e.2 (by simp only [INode.children, List.mem_map]; exact ⟨e, he, rfl⟩)).1
  rw [← complexifyEdgesI_den hs.wf _ lo hi es cv] at h
  cases hh : complexifyEdgesI (Id.ff.negate (.ref i c)) lo hi es with
  | nil => rw [hh] at h; exact absurd rfl h
  | cons e rest => rfl

end Strong

/-! ## non-vacuity: a concrete arena over the model's own types -/
namespace PyWitness

abbrev T := Tree VarR VarB Val
abbrev S := IState VarR VarB Val

instance (s : S) (id : Id) : Decidable (Id.Valid s id) := decidable_of_iff _ (Id.valid_iff s id).symm

/-- `python_full_version` -/
def pv : VarR := .ver .pfv
def v2 : Val := .ver [2]
def v38 : Val := .ver [3, 8]
def v39 : Val := .ver [3, 9]
def v310 : Val := .ver [3, 10]

/-- `python_full_version >= '3.8' and python_full_version < '3.10'`
    (first child FALSE: the node is stored complemented) -/
def tP : T := .rng pv (.cons ⟨.unb, .excl v38⟩ (.leaf false)
  (.cons ⟨.incl v38, .excl v310⟩ (.leaf true) (.cons ⟨.incl v310, .unb⟩ (.leaf false) .nil)))
/-- `implementation_version >= '2' and tP`: a variable ordered BEFORE `python_full_version` -/
def tQ : T := .rng (.ver .implVer) (.cons ⟨.unb, .excl v2⟩ (.leaf false) (.cons ⟨.incl v2, .unb⟩ tP .nil))
/-- `extra == 'a'`: a boolean variable (ordered after `python_full_version`) -/
def tE : T := .bool (.extra (.extra "a")) (.leaf true) (.leaf false)
/-- `python_version >= '3.9'` (`python_version` orders AFTER `python_full_version`) -/
def tV : T := .rng (.ver .pyVer) (.cons ⟨.unb, .excl v39⟩ (.leaf false) (.cons ⟨.incl v39, .unb⟩ (.leaf true) .nil))

theorem wfQ : tQ.wf = true := by decide
theorem wfP : tP.wf = true := by decide
theorem wfE : tE.wf = true := by decide
theorem wfV : tV.wf = true := by decide

def r1 := internTree (IState.empty : S) tQ
def r2 := internTree r1.1 tE
def r3 := internTree r2.1 tV
/-- the arena: 4 nodes (`tP`, `tQ`, `tE`, `tV`) -/
def s0 : S := r3.1
def xQ : Id := r1.2
def xE : Id := r2.2
def xV : Id := r3.2
def xP : Id := .ref 0 true

example : s0.nodes.length = 4 ∧ xQ = .ref 1 true ∧ xE = .ref 2 false ∧ xV = .ref 3 true := by decide

theorem inv1 : r1.1.Inv := (internTree_wf tQ _ IState.Inv_empty wfQ).1
theorem inv2 : r2.1.Inv := (internTree_wf tE _ inv1 wfE).1
theorem s0_inv : s0.Inv := (internTree_wf tV _ inv2 wfV).1
theorem vQ : Id.Valid s0 xQ := by decide
theorem vP : Id.Valid s0 xP := by decide
theorem vE : Id.Valid s0 xE := by decide
theorem vV : Id.Valid s0 xV := by decide
theorem denQ : den s0 xQ = tQ := by decide
theorem denP : den s0 xP = tP := by decide

/-! ### `simplify_refines`: `requires-python >= 3.8` on `tQ` (map branch over the pv branch, on a
COMPLEMENTED `python_full_version` reference) -/
def a1 := simplifyPyI pv (.incl v38) .unb 11 s0 xQ
theorem nv_simplify_refines : a1.1.Inv ∧ s0.Le a1.1 ∧ Id.Valid a1.1 a1.2 ∧
    den a1.1 a1.2 = (den s0 xQ).simplifyPy pv (.incl v38) .unb :=
  simplify_refines pv (.incl v38) .unb 11 s0 xQ s0_inv vQ (by decide)
/-- two nodes created (`pfv < 3.10`, and the new `implementation_version` node over it); the result
    differs from the operand; the diagram is `implementation_version >= 2 and pfv < 3.10` -/
example : a1.1.nodes.length = 6 ∧ a1.2 = .ref 5 true ∧ a1.2 ≠ xQ ∧
    (den s0 xQ).simplifyPy pv (.incl v38) .unb =
      .rng (.ver .implVer) (.cons ⟨.unb, .excl v2⟩ (.leaf false) (.cons ⟨.incl v2, .unb⟩
        (.rng pv (.cons ⟨.unb, .excl v310⟩ (.leaf true) (.cons ⟨.incl v310, .unb⟩ (.leaf false) .nil))) .nil)) := by
  decide
/-- directly on the complemented id of `tP`, with an upper bound: `pfv >= 3.8` (stored complemented) -/
example : (simplifyPyI pv .unb (.excl v310) 7 s0 xP).2 = .ref 4 true ∧
    den (simplifyPyI pv .unb (.excl v310) 7 s0 xP).1 (simplifyPyI pv .unb (.excl v310) 7 s0 xP).2 =
      .rng pv (.cons ⟨.unb, .excl v38⟩ (.leaf false) (.cons ⟨.incl v38, .unb⟩ (.leaf true) .nil)) := by decide
/-- empty Python range: FALSE at the `python_full_version` node; the node above collapses -/
example : (simplifyPyI pv (.excl v39) (.excl v39) 11 s0 xQ).2 = .ff ∧
    (den s0 xQ).simplifyPy pv (.excl v39) (.excl v39) = .leaf false := by decide
theorem nv_simplify_cache_untouched : a1.1.cache = s0.cache := simplify_cache_untouched _ _ _ _ _ _
/-- the fuel hypothesis is a real one -/
theorem simplify_fuel_needed : ¬ (den s0 xQ).size ≤ 1 ∧
    den (simplifyPyI pv (.incl v38) .unb 1 s0 xQ).1 (simplifyPyI pv (.incl v38) .unb 1 s0 xQ).2 ≠
      (den s0 xQ).simplifyPy pv (.incl v38) .unb := by decide

/-! ### `complexify_refines` -/
/-- on `tQ` with `>= 3.9, < 3.10`: map branch, then the surgery on the complemented pv node
    (`exclude_node_id = TRUE`, compared with the raw children) -/
def b1 := complexifyPyI pv (.incl v39) (.excl v310) 19 s0 xQ
theorem nv_complexify_refines : b1.1.Inv ∧ s0.Le b1.1 ∧ Id.Valid b1.1 b1.2 ∧
    den b1.1 b1.2 = (den s0 xQ).complexifyPy pv (.incl v39) (.excl v310) :=
  complexify_refines pv (.incl v39) (.excl v310) 19 s0 xQ s0_inv vQ (by decide)
example : b1.1.nodes.length = 6 ∧ b1.2 = .ref 5 true ∧ b1.2 ≠ xQ ∧
    (den s0 xQ).complexifyPy pv (.incl v39) (.excl v310) =
      .rng (.ver .implVer) (.cons ⟨.unb, .excl v2⟩ (.leaf false) (.cons ⟨.incl v2, .unb⟩
        (.rng pv (.cons ⟨.unb, .excl v39⟩ (.leaf false) (.cons ⟨.incl v39, .excl v310⟩ (.leaf true)
          (.cons ⟨.incl v310, .unb⟩ (.leaf false) .nil)))) .nil)) := by
  decide
/-- a boolean node: the `var > python_full_version` branch (range node created, then `and`) -/
def b2 := complexifyPyI pv (.incl v39) .unb 11 s0 xE
theorem nv_complexify_refines_bool : den b2.1 b2.2 = (den s0 xE).complexifyPy pv (.incl v39) .unb :=
  (complexify_refines pv (.incl v39) .unb 11 s0 xE s0_inv vE (by decide)).2.2.2
example : b2.1.nodes.length = 6 ∧ b2.1.cache.length = 1 ∧ b2.2 = .ref 5 true ∧
    den b2.1 b2.2 = .rng pv (.cons ⟨.unb, .excl v39⟩ (.leaf false) (.cons ⟨.incl v39, .unb⟩ tE .nil)) := by decide
/-- a range node AFTER `python_full_version` (`python_version`, stored complemented): F10 branch -/
theorem nv_complexify_refines_after :
    den (complexifyPyI pv .unb (.excl v310) 13 s0 xV).1 (complexifyPyI pv .unb (.excl v310) 13 s0 xV).2 =
      (den s0 xV).complexifyPy pv .unb (.excl v310) :=
  (complexify_refines pv .unb (.excl v310) 13 s0 xV s0_inv vV (by decide)).2.2.2
example : den (complexifyPyI pv .unb (.excl v310) 13 s0 xV).1 (complexifyPyI pv .unb (.excl v310) 13 s0 xV).2 =
    .rng pv (.cons ⟨.unb, .excl v310⟩ tV (.cons ⟨.incl v310, .unb⟩ (.leaf false) .nil)) := by decide
/-- the TRUE terminal becomes the range node; FALSE stays; an empty range gives FALSE -/
example : (complexifyPyI pv (.incl v38) (.excl v310) 0 s0 .tt).2 = xP ∧
    (complexifyPyI pv (.incl v38) (.excl v310) 0 s0 .ff).2 = .ff ∧
    (complexifyPyI pv (.excl v39) (.excl v39) 19 s0 xQ).2 = .ff := by decide
/-- the fuel hypothesis is a real one -/
theorem complexify_fuel_needed :
    den (complexifyPyI pv (.incl v39) .unb 1 s0 xE).1 (complexifyPyI pv (.incl v39) .unb 1 s0 xE).2 ≠
      (den s0 xE).complexifyPy pv (.incl v39) .unb := by decide

/-! ### another history: the same diagrams interned in another order, after other work -/
def q1 := internTree (IState.empty : S) tV
def q2 := internTree q1.1 tE
def q3 := andI 10 q2.1 q1.2 q2.2
def q4 := internTree q3.1 tQ
def sOther : S := q4.1
def yQ : Id := q4.2
def yE : Id := q2.2
theorem sOther_inv : sOther.Inv := by
  have i1 := (internTree_wf tV _ IState.Inv_empty wfV)
  have i2 := (internTree_wf tE _ i1.1 wfE)
  have i3 := andI_refines 10 q2.1 q1.2 q2.2 i2.1 (i1.2.2.1.mono i2.2.1) i2.2.2.1 (by decide)
  exact (internTree_wf tQ _ i3.1 wfQ).1
theorem vyQ : Id.Valid sOther yQ := by decide
theorem vyE : Id.Valid sOther yE := by decide
example : yQ ≠ xQ ∧ yE ≠ xE ∧ sOther.nodes.length = 5 ∧ sOther.cache.length = 1 := by decide

theorem nv_simplify_history_independent :
    den (simplifyPyI pv (.incl v38) .unb 11 s0 xQ).1 (simplifyPyI pv (.incl v38) .unb 11 s0 xQ).2 =
      den (simplifyPyI pv (.incl v38) .unb 30 sOther yQ).1 (simplifyPyI pv (.incl v38) .unb 30 sOther yQ).2 :=
  simplify_history_independent pv (.incl v38) .unb 11 30 s0 sOther xQ yQ s0_inv sOther_inv vQ vyQ
    (by decide) (by decide) (by decide)
/-- different ids, same diagram -/
example : (simplifyPyI pv (.incl v38) .unb 11 s0 xQ).2 ≠ (simplifyPyI pv (.incl v38) .unb 30 sOther yQ).2 := by
  decide

theorem nv_complexify_history_independent :
    den (complexifyPyI pv (.incl v39) .unb 11 s0 xE).1 (complexifyPyI pv (.incl v39) .unb 11 s0 xE).2 =
      den (complexifyPyI pv (.incl v39) .unb 25 sOther yE).1 (complexifyPyI pv (.incl v39) .unb 25 sOther yE).2 :=
  complexify_history_independent pv (.incl v39) .unb 11 25 s0 sOther xE yE s0_inv sOther_inv vE vyE
    (by decide) (by decide) (by decide)
example : (complexifyPyI pv (.incl v39) .unb 11 s0 xE).2 ≠ (complexifyPyI pv (.incl v39) .unb 25 sOther yE).2 := by
  decide

/-! ### `…_same_id_later`: after OTHER simplifications / complexifications on the same arena -/
def sLater1 : S := (complexifyPyI pv (.incl v39) .unb 11 (simplifyPyI pv .unb (.excl v310) 7 a1.1 xP).1 xE).1
theorem later1 : sLater1.Inv ∧ a1.1.Le sLater1 := by
  have h1 := simplify_refines pv .unb (.excl v310) 7 a1.1 xP nv_simplify_refines.1
    (vP.mono nv_simplify_refines.2.1) (by decide)
  have h2 := complexify_refines pv (.incl v39) .unb 11 _ xE h1.1
    ((vE.mono nv_simplify_refines.2.1).mono h1.2.1) (by decide)
  exact ⟨h2.1, h1.2.1.trans h2.2.1⟩
example : sLater1.nodes.length = 9 := by decide
theorem nv_simplify_same_id_later :
    (simplifyPyI pv (.incl v38) .unb 40 sLater1 xQ).2 = (simplifyPyI pv (.incl v38) .unb 11 s0 xQ).2 :=
  simplify_same_id_later pv (.incl v38) .unb 11 40 s0 sLater1 xQ s0_inv later1.1 vQ later1.2
    (by decide) (by decide)

def sLater2 : S := (simplifyPyI pv (.incl v38) .unb 11 b1.1 xQ).1
theorem later2 : sLater2.Inv ∧ b1.1.Le sLater2 := by
  have h1 := simplify_refines pv (.incl v38) .unb 11 b1.1 xQ nv_complexify_refines.1
    (vQ.mono nv_complexify_refines.2.1) (by decide)
  exact ⟨h1.1, h1.2.1⟩
theorem nv_complexify_same_id_later :
    (complexifyPyI pv (.incl v39) (.excl v310) 50 sLater2 xQ).2 =
      (complexifyPyI pv (.incl v39) (.excl v310) 19 s0 xQ).2 :=
  complexify_same_id_later pv (.incl v39) (.excl v310) 19 50 s0 sLater2 xQ s0_inv later2.1 vQ later2.2
    (by decide) (by decide)

theorem nv_simplify_after_complexify :
    den (simplifyPyI pv (.incl v39) (.excl v310) 11 b1.1 b1.2).1 (simplifyPyI pv (.incl v39) (.excl v310) 11 b1.1 b1.2).2 =
      ((den s0 xQ).complexifyPy pv (.incl v39) (.excl v310)).simplifyPy pv (.incl v39) (.excl v310) :=
  simplify_after_complexify pv (.incl v39) (.excl v310) 19 11 s0 xQ s0_inv vQ (by decide) (by decide)
/-- … which is the simplification of the operand itself: `implementation_version >= 2` -/
example : ((den s0 xQ).complexifyPy pv (.incl v39) (.excl v310)).simplifyPy pv (.incl v39) (.excl v310) =
      .rng (.ver .implVer) (.cons ⟨.unb, .excl v2⟩ (.leaf false) (.cons ⟨.incl v2, .unb⟩ (.leaf true) .nil)) ∧
    (den s0 xQ).simplifyPy pv (.incl v39) (.excl v310) =
      .rng (.ver .implVer) (.cons ⟨.unb, .excl v2⟩ (.leaf false) (.cons ⟨.incl v2, .unb⟩ (.leaf true) .nil)) := by
  decide

/-! ### the panic site: why the model answers FALSE *before* `.negate(i)`

`IState.Inv` does not say that the edges of a node partition the line (it is the invariant of the
hash-consing, not C20).  On an arena with a `python_full_version` node none of whose edges meets
the Python range, Rust panics (`new.first().unwrap()`); the tree model answers FALSE.  Answering
through `create_node(empty edges) = FALSE` followed by `.negate(i)` would give TRUE for a
complemented operand. -/
def badNode : INode VarR VarB Val := .rng pv [(⟨.incl v38, .incl v38⟩, .tt), (⟨.incl v310, .incl v310⟩, .ff)]
def sBad : S := (createNodeI (IState.empty : S) badNode).1
theorem sBad_inv : sBad.Inv :=
  (createNodeI_spec IState.Inv_empty badNode (by intro c hc; revert c; decide)).1
theorem panic_site :
    Id.Valid sBad (.ref 0 true) ∧ (den sBad (.ref 0 true)).wf = false ∧
    simplifyEdgesI (.incl v2) (.incl v2) [(⟨.incl v38, .incl v38⟩, .tt), (⟨.incl v310, .incl v310⟩, .ff)] = [] ∧
    (den sBad (.ref 0 true)).simplifyPy pv (.incl v2) (.incl v2) = .leaf false ∧
    (simplifyPyI pv (.incl v2) (.incl v2) 5 sBad (.ref 0 true)).2 = .ff ∧
    (createNodeI sBad (.rng pv [])).2.negate (.ref 0 true) = .tt ∧
    (den sBad (.ref 0 true)).complexifyPy pv (.incl v2) (.incl v2) = .leaf false ∧
    (complexifyPyI pv (.incl v2) (.incl v2) 15 sBad (.ref 0 true)).2 = .ff := by decide
/-- the refinement theorem applies there all the same (no well-formedness hypothesis) -/
theorem nv_refines_on_bad :
    den (simplifyPyI pv (.incl v2) (.incl v2) 5 sBad (.ref 0 true)).1
      (simplifyPyI pv (.incl v2) (.incl v2) 5 sBad (.ref 0 true)).2 =
      (den sBad (.ref 0 true)).simplifyPy pv (.incl v2) (.incl v2) :=
  (simplify_refines pv (.incl v2) (.incl v2) 5 sBad (.ref 0 true) sBad_inv (by decide) (by decide)).2.2.2

end PyWitness
end Pep508.C14
