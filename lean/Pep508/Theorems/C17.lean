/-
C17 — meaningless comparisons are reported and dropped, never silently.

`dispatch` is the typed dispatch of `parse_marker_key_op_value` (after F7), `combine` the
chain builder of `parse_marker_op`.  `Ext` (what pep440_rs says about literals) is universally
quantified.  The reporter is write-only in the model (warnings are an output list), so neither
its choice nor the collection of evaluation warnings can influence a parsed marker.
-/
import Pep508.Proofs.Dispatch
namespace Pep508.C17
open Pep508

/-- uninterpretable comparison ⇒ dropped, and a warning of the matching kind is reported -/
theorem reported_and_dropped (x : Ext) (l : MValue) (op : MOp) (r : MValue) (k : WarnKind)
    (h : uninterpretable l op r = some k) :
    (dispatch x l op r).1 = none ∧ k ∈ (dispatch x l op r).2 := dispatch_uninterpretable x l op r k h

/-- nothing is ever dropped silently -/
theorem never_silently (x : Ext) (l : MValue) (op : MOp) (r : MValue)
    (h : (dispatch x l op r).1 = none) : (dispatch x l op r).2 ≠ [] := dispatch_none_warns x l op r h

/-- a version comparison that is kept reports nothing -/
theorem version_kept_quiet (x : Ext) (k : VKey) (op : MOp) (v : List Char) (e : MExpr)
    (h : (dispatch x (.verKey k) op (.quoted v)).1 = some e) : (dispatch x (.verKey k) op (.quoted v)).2 = [] :=
  dispatch_verKey_quoted_some x k op v e h

/-- dropped operands do not change a chain: the result equals the marker with exactly that
    comparison removed (and TRUE if nothing remains: `parseMarkers` uses `getD (.leaf true)`) -/
theorem chain_skips_dropped (isAnd : Bool) (acc : Option MTree) : combine isAnd acc none = acc :=
  combine_none_right isAnd acc
theorem chain_first_kept (isAnd : Bool) (t : MTree) : combine isAnd none (some t) = some t :=
  combine_none_left isAnd t

/-- non-vacuity: `'x' ~= os_name` (the F7 witness) on the model -/
example : dispatch ⟨fun _ => none, fun _ => none, fun _ => false⟩ (.quoted ['x']) .tilde (.strKey ⟨1⟩)
    = (none, [.lexicographicComparison]) := by decide

end Pep508.C17
