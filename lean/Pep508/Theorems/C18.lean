/-
C18 — URL requirements: where the URL ends.

`urlScan` / `parseUrl` (Model/ReqParse.lean) transcribe the scanning loop of `parse_url`
(after the K4 repair: a `;`/`#` glued to the URL and followed by whitespace is an error
whatever follows).  `urlEnd` (Proofs/ReqAccept.lean) is the declarative rule, with no cursor
or position: the URL is the longest prefix before the first *stop event* (a line break, or a
whitespace character whose following non-whitespace character is `;`, `#` or the end of
input), unless an *ambiguity* (a `;` / `#` immediately followed by whitespace) comes first.
`expand_env_vars` is modelled by `expandEnvVars` and compared exhaustively by the harness.
-/
import Pep508.Proofs.ReqAccept
namespace Pep508.C18
open Pep508

/-- the scanning loop computes exactly the declarative rule -/
theorem scan_is_rule (fuel : Nat) (c : Cursor) (len : Nat) (hf : c.rest.length < fuel) :
    urlScan fuel c len =
      match urlEnd c.rest with
      | .inl u => .inl (len + strLen u, urlAfter c (u.length + 1))
      | .inr b => .inr (c.pos + strLen b, 1) := urlScan_eq_urlEnd fuel c len hf

/-- what the rule means: the URL is a prefix ending at the first stop event, and no stop event
    or ambiguity occurs at any earlier position -/
theorem rule_url (t u : List Char) (h : urlEnd t = .inl u) :
    ∃ r, t = u ++ r ∧ stopAt r = true ∧
      ∀ a b, t = a ++ b → a.length < u.length → stopAt b = false ∧ ambAt b = false :=
  urlEnd_inl_spec t u h

/-- … and "ambiguous" means a `;`/`#` followed by whitespace is met before any stop event -/
theorem rule_ambiguous (t b : List Char) (h : urlEnd t = .inr b) :
    ∃ r, t = b ++ r ∧ ambAt r = true ∧ stopAt r = false ∧
      ∀ a b', t = a ++ b' → a.length < b.length → stopAt b' = false ∧ ambAt b' = false :=
  urlEnd_inr_spec t b h

/-- `parse_url`: the slice handed to the URL parser is that prefix (verbatim, so `given()` is the
    unexpanded text), an empty prefix is "Expected URL", an ambiguity is an error at the `;`/`#` -/
theorem parse_url_is_rule {c : Cursor} (h : c.Inv) :
    parseUrl c =
      match urlEnd c.eatWhitespace.rest with
      | .inr b => serr (c.eatWhitespace.pos + strLen b) 1
      | .inl u =>
        if u.isEmpty then serr c.eatWhitespace.pos 0
        else .ok ((u, c.eatWhitespace.pos, strLen u), urlAfter c.eatWhitespace (u.length + 1)) :=
  parseUrl_eq_urlEnd h

/-- non-vacuity: `a; ` is ambiguous, `a ;x` ends before the space, `a;x` runs to the end -/
example : urlEnd ['a', ';', ' '] = .inr ['a'] := by decide
example : urlEnd ['a', ' ', ';', 'x'] = .inl ['a'] := by decide
example : urlEnd ['a', ';', 'x'] = .inl ['a', ';', 'x'] := by decide

end Pep508.C18
