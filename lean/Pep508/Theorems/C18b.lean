/-
C18b — `expand_env_vars`: declarative specification and proof that the model meets it.

`expandEnvVars env s` (Model/Url.lean, compared exhaustively with the Rust function by the
harness) is a fuelled left-to-right scanner.  `Expands env s o` (Proofs/ExpandSpec.lean) is the
declarative rule, with no fuel and no scanner state:

* the empty string expands to the empty string;
* `${NAME}` ++ rest, `NAME ∈ [A-Z0-9_]+`, expands to (value of NAME, or `${NAME}` itself when
  NAME is unset) ++ expansion of rest — the value is *not* expanded again;
* `c` :: rest, when `c :: rest` does not start with a well-formed reference, expands to
  `c` :: expansion of rest.

The relation is total and functional, and `expandEnvVars` computes it.  The corollaries below
say in plain words what that means for set / unset variables, `PROJECT_ROOT`, malformed
references and cutting the input in pieces.

Finding (not a defect): the decomposition (b) `expand (pre ++ "${NAME}" ++ post) = expand pre ++
value ++ expand post` needs NO side condition on `pre`: a partial reference at the end of `pre`
(`$`, `${`, `${ABC`) can only be completed by `{`, `}` or a name character, never by `$`.  The
general cut `expand (a ++ b) = expand a ++ expand b` does need a condition (`NoStraddle`), see
`cut_needs_condition`.
-/
import Pep508.Proofs.ExpandSpec
namespace Pep508.C18
open Pep508

/-! ### (S1) the specification characterises the function -/

/-- totality + correctness: the function's result satisfies the rule, for every input -/
theorem expand_meets_spec (env : ProcEnv) (s : List Char) : Expands env s (expandEnvVars env s) :=
  expands_expandEnvVars env s

/-- the rule determines the output -/
theorem spec_functional (env : ProcEnv) (s o₁ o₂ : List Char)
    (h₁ : Expands env s o₁) (h₂ : Expands env s o₂) : o₁ = o₂ := h₁.functional h₂

/-- hence the rule *is* the function -/
theorem expand_iff_spec (env : ProcEnv) (s o : List Char) :
    expandEnvVars env s = o ↔ Expands env s o := expandEnvVars_eq_iff env s o

/-- the scanner's test `matchVar` is exactly "starts with a well-formed reference", and it
    returns that reference's name and what follows it -/
theorem matchVar_is_ref (s name after : List Char) :
    matchVar s = some (name, after) ↔ ValidName name ∧ s = '$' :: '{' :: name ++ '}' :: after :=
  matchVar_eq_some_iff

theorem matchVar_none_is_no_ref (s : List Char) : matchVar s = none ↔ ¬ StartsWithRef s :=
  matchVar_eq_none_iff

/-- fuel-free recursion equations of the function -/
theorem expand_nil (env : ProcEnv) : expandEnvVars env [] = [] := rfl

theorem expand_ref (env : ProcEnv) (name rest : List Char) (h : ValidName name) :
    expandEnvVars env ('$' :: '{' :: name ++ '}' :: rest) =
      substVar env name ++ expandEnvVars env rest := expandEnvVars_ref env h rest

theorem expand_char (env : ProcEnv) (c : Char) (rest : List Char) (h : ¬ StartsWithRef (c :: rest)) :
    expandEnvVars env (c :: rest) = c :: expandEnvVars env rest := expandEnvVars_char env h

/-! ### (S2a) no `$`: unchanged -/

theorem no_dollar_unchanged (env : ProcEnv) (s : List Char) (h : '$' ∉ s) :
    expandEnvVars env s = s := expandEnvVars_id env s h

/-- more generally a `$`-free prefix is copied and the rest expanded independently -/
theorem no_dollar_prefix (env : ProcEnv) (pre s : List Char) (h : '$' ∉ pre) :
    expandEnvVars env (pre ++ s) = pre ++ expandEnvVars env s :=
  expandEnvVars_append_no_dollar env h s

/-! ### (S2b, S2c) a reference anywhere in the input — no side condition on `pre` -/

/-- general form: `${name}` is replaced by `substVar env name`, the two sides are expanded
    independently -/
theorem reference_anywhere (env : ProcEnv) (pre name post : List Char) (hv : ValidName name) :
    expandEnvVars env (pre ++ refText name ++ post) =
      expandEnvVars env pre ++ substVar env name ++ expandEnvVars env post :=
  expandEnvVars_ref_mid env pre hv post

/-- (b) a set variable is replaced by its value -/
theorem set_variable (env : ProcEnv) (pre name post value : List Char) (hv : ValidName name)
    (hl : lookupVar env name = some value) :
    expandEnvVars env (pre ++ refText name ++ post) =
      expandEnvVars env pre ++ value ++ expandEnvVars env post := by
  rw [reference_anywhere env pre name post hv, substVar_set hl]

/-- (c) an unset variable is left verbatim -/
theorem unset_variable (env : ProcEnv) (pre name post : List Char) (hv : ValidName name)
    (hl : lookupVar env name = none) :
    expandEnvVars env (pre ++ refText name ++ post) =
      expandEnvVars env pre ++ refText name ++ expandEnvVars env post := by
  rw [reference_anywhere env pre name post hv, substVar_unset hl]

/-- `refText name` is the text `${name}` -/
theorem refText_is (name post : List Char) :
    refText name ++ post = '$' :: '{' :: name ++ '}' :: post := refText_append name post

/-! ### cutting the input: `expand (a ++ b) = expand a ++ expand b` -/

/-- the general cut: allowed whenever no reference straddles the boundary -/
theorem cut (env : ProcEnv) (a b : List Char) (h : NoStraddle a b) :
    expandEnvVars env (a ++ b) = expandEnvVars env a ++ expandEnvVars env b :=
  expandEnvVars_append env a b h

/-- sufficient: `b` is empty or starts with anything but `{`, `}`, `[A-Z0-9_]` (so: `$`, `/`,
    `:`, `.`, `-`, `@`, lower-case letters, …) -/
theorem cut_before_safe (env : ProcEnv) (a b : List Char) (hb : SafeStart b) :
    expandEnvVars env (a ++ b) = expandEnvVars env a ++ expandEnvVars env b :=
  expandEnvVars_append_safeStart env a hb

/-- sufficient: `a` is empty or ends with anything but `$`, `{`, `[A-Z0-9_]` -/
theorem cut_after_safe (env : ProcEnv) (a b : List Char) (ha : SafeEnd a) :
    expandEnvVars env (a ++ b) = expandEnvVars env a ++ expandEnvVars env b :=
  expandEnvVars_append_safeEnd env ha b

/-- in particular one can always cut in front of a `$` -/
theorem cut_before_dollar (env : ProcEnv) (a post : List Char) :
    expandEnvVars env (a ++ '$' :: post) = expandEnvVars env a ++ expandEnvVars env ('$' :: post) :=
  expandEnvVars_append_dollar env a post

/-- the unconditional cut is FALSE: `${A` ++ `}` with `A = x` -/
theorem cut_needs_condition :
    ¬ ∀ (env : ProcEnv) (a b : List Char),
        expandEnvVars env (a ++ b) = expandEnvVars env a ++ expandEnvVars env b := fun h =>
  absurd (h ⟨[(['A'], ['x'])], []⟩ ['$', '{', 'A'] ['}']) (by decide)

/-! ### (S2d) `lookupVar`: the environment first, `PROJECT_ROOT` falls back to the cwd -/

/-- `lookupVar` is association-list lookup (first binding wins) with one fallback -/
theorem lookupVar_is (env : ProcEnv) (name : List Char) :
    lookupVar env name =
      (env.vars.lookup name <|> if name = "PROJECT_ROOT".toList then some env.cwd else none) :=
  lookupVar_eq_lookup env name

/-- a set variable — `PROJECT_ROOT` included — has its (first) value from the environment -/
theorem lookupVar_of_set (env : ProcEnv) (name value : List Char)
    (l₁ l₂ : List (List Char × List Char))
    (he : env.vars = l₁ ++ (name, value) :: l₂) (h₁ : ∀ p ∈ l₁, p.1 ≠ name) :
    lookupVar env name = some value := lookupVar_set he h₁

/-- `PROJECT_ROOT` is the working directory when (and, by `lookupVar_of_set`, only when) unset -/
theorem project_root_unset (env : ProcEnv) (h : ∀ p ∈ env.vars, p.1 ≠ "PROJECT_ROOT".toList) :
    lookupVar env "PROJECT_ROOT".toList = some env.cwd := by
  rw [lookupVar_unset h, if_pos rfl]

/-- any other unset name has no value -/
theorem other_unset (env : ProcEnv) (name : List Char) (h : ∀ p ∈ env.vars, p.1 ≠ name)
    (hn : name ≠ "PROJECT_ROOT".toList) : lookupVar env name = none := by
  rw [lookupVar_unset h, if_neg hn]

theorem lookupVar_none_iff (env : ProcEnv) (name : List Char) :
    lookupVar env name = none ↔ (∀ p ∈ env.vars, p.1 ≠ name) ∧ name ≠ "PROJECT_ROOT".toList :=
  lookupVar_eq_none_iff

/-! ### (S2e) replacements are not re-scanned -/

/-- whatever the value contains — `$`, `${OTHER}`, … — it is copied verbatim -/
theorem no_rescan (env : ProcEnv) (name value : List Char) (hv : ValidName name)
    (hl : lookupVar env name = some value) : expandEnvVars env (refText name) = value := by
  have := set_variable env [] name [] value hv hl
  simpa using this

def envAB : ProcEnv := ⟨[("A".toList, "${B}".toList), ("B".toList, "x".toList)], "/w".toList⟩

/-- `A = "${B}"`, `B = "x"`: `${A}` gives `${B}`, not `x` … -/
example : expandEnvVars envAB "${A}".toList = "${B}".toList := by decide
/-- … so the function is not idempotent -/
example : expandEnvVars envAB (expandEnvVars envAB "${A}".toList) = "x".toList := by decide

/-! ### (S2f) malformed references are copied verbatim -/

/-- `$NAME`: `$` not followed by `{` -/
theorem dollar_without_brace (env : ProcEnv) (s : List Char) (h : ∀ c, s.head? = some c → c ≠ '{') :
    expandEnvVars env ('$' :: s) = '$' :: expandEnvVars env s := expandEnvVars_dollar_no_brace env h

/-- `${NAME` not closed: followed by the end of input or a character other than `}`, `{`,
    `[A-Z0-9_]` -/
theorem unclosed_reference (env : ProcEnv) (name rest : List Char)
    (hall : ∀ c ∈ name, isVarChar c = true) (hr : SafeStart rest) :
    expandEnvVars env ('$' :: '{' :: name ++ rest) = '$' :: '{' :: name ++ expandEnvVars env rest :=
  expandEnvVars_unclosed env hall hr

/-- `${}` -/
theorem empty_name (env : ProcEnv) (rest : List Char) :
    expandEnvVars env ('$' :: '{' :: '}' :: rest) = '$' :: '{' :: '}' :: expandEnvVars env rest :=
  expandEnvVars_empty_name env rest

/-- `${name}` with a character outside `[A-Z0-9_]` in the name (and no `}` / `$` in it) -/
theorem bad_name (env : ProcEnv) (name rest : List Char)
    (hbad : ∃ c ∈ name, isVarChar c = false) (hrb : '}' ∉ name) (hd : '$' ∉ name) :
    expandEnvVars env ('$' :: '{' :: name ++ '}' :: rest) =
      '$' :: '{' :: name ++ '}' :: expandEnvVars env rest := expandEnvVars_bad_name env rest hbad hrb hd

/-! ### (S2g) fuel -/

theorem fuel_suffices (env : ProcEnv) (n : Nat) (s : List Char) (h : s.length < n) :
    expandEnvVarsF env n s = expandEnvVarsF env (s.length + 1) s :=
  expandEnvVarsF_fuel_suffices env n s h

/-- with too little fuel the scanner stops and copies the remainder: the bound is needed -/
example : expandEnvVarsF envAB 1 "x${B}".toList = "x${B}".toList := by decide
example : expandEnvVars envAB "x${B}".toList = "xx".toList := by decide

/-! ### (S3) concrete witnesses -/

def envA : ProcEnv := ⟨[("A".toList, "va".toList), ("A".toList, "second".toList)], "/w".toList⟩
def envRoot : ProcEnv := ⟨[("PROJECT_ROOT".toList, "/set".toList)], "/w".toList⟩

/-- `A` set, `B` unset -/
example : expandEnvVars envA "https://h/${A}/${B}".toList = "https://h/va/${B}".toList := by decide
example : Expands envA "https://h/${A}/${B}".toList "https://h/va/${B}".toList :=
  (expand_iff_spec _ _ _).1 (by decide)
/-- … and the specification rejects any other output -/
example : ¬ Expands envA "${A}".toList "second".toList :=
  fun h => absurd ((expand_iff_spec _ _ _).2 h) (by decide)
/-- `PROJECT_ROOT`: the working directory when unset, the variable when set -/
example : expandEnvVars envA "${PROJECT_ROOT}/x".toList = "/w/x".toList := by decide
example : expandEnvVars envRoot "${PROJECT_ROOT}/x".toList = "/set/x".toList := by decide
/-- adjacent references, `$$`, a partial reference directly in front of a reference -/
example : expandEnvVars envA "${A}${A}".toList = "vava".toList := by decide
example : expandEnvVars envA "$${A}".toList = "$va".toList := by decide
example : expandEnvVars envA "${A${A}".toList = "${Ava".toList := by decide
example : expandEnvVars envA "${${A}}".toList = "${va}".toList := by decide
/-- malformed: `$A`, `${A` , `${}`, `${a}`, `${A-B}`, `${ A}` -/
example : expandEnvVars envA "$A ${A ${} ${a} ${A-B} ${ A}".toList =
    "$A ${A ${} ${a} ${A-B} ${ A}".toList := by decide
/-- digits and `_` are name characters, also in first position -/
example : ValidName "0_A".toList := by decide
example : expandEnvVars ⟨[("0_".toList, "z".toList)], []⟩ "${0_}".toList = "z".toList := by decide
/-- an empty value erases the reference -/
example : expandEnvVars ⟨[("E".toList, [])], []⟩ "a${E}b".toList = "ab".toList := by decide

end Pep508.C18
