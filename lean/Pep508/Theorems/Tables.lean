/-
Tables — the part of the model that is tied to the source by TRANSLATION instead of by sampling.

`Pep508/Generated/Tables.lean` is written by `tools/gen_tables.py` from /repo's current sources on every
run of a check (enum declaration orders, key names, Display names, operator tokens, `invert`, `negate`,
`to_pep440_operator`, `get_string` / `get_version`, the archive extension lists).  The theorems below
state that the hand-written model has exactly these tables; every one is closed by `decide`, so a change to
a table in the Rust source (a renamed key, a swapped operator, a dropped extension …) leaves an open proof
obligation and the build of this module fails.

`stringKeyIdx` / `versionKeyOf` / `mopOf` / `op440Of` are the dictionary between the Rust variant names and the
model's constructors; it is part of the model (hand-written) and is what the theorems pin down.
-/
import Pep508.Generated.Tables
import Pep508.Model.MarkerParse
import Pep508.Model.Dnf
import Pep508.Model.Url
namespace Pep508.Tables
open Pep508

/-- the model's `SKey ⟨i⟩` is the i-th variant of `MarkerValueString` in declaration order (= the derived `Ord`,
    hence the variable order of the diagram) -/
def modelStringKeys : List String :=
  ["ImplementationName", "OsName", "OsNameDeprecated", "PlatformMachine", "PlatformMachineDeprecated",
   "PlatformPythonImplementation", "PlatformPythonImplementationDeprecated", "PythonImplementationDeprecated",
   "PlatformRelease", "PlatformSystem", "PlatformVersion", "PlatformVersionDeprecated", "SysPlatform",
   "SysPlatformDeprecated"]

def stringKeyIdx (v : String) : Option Nat := modelStringKeys.idxOf? v

def versionKeyOf : String → Option VKey
  | "ImplementationVersion" => some .implVer
  | "PythonFullVersion" => some .pfv
  | "PythonVersion" => some .pyVer
  | _ => none

def mopOf : String → Option MOp
  | "Equal" => some .eq | "NotEqual" => some .ne | "GreaterThan" => some .gt | "GreaterEqual" => some .ge
  | "LessThan" => some .lt | "LessEqual" => some .le | "TildeEqual" => some .tilde | "In" => some .isIn
  | "NotIn" => some .notIn | "Contains" => some .contains | "NotContains" => some .notContains
  | _ => none

/-- `pep440_rs::Operator` variants that `to_pep440_operator` can return -/
def op440Of : String → Option Op
  | "Equal" => some .eq | "NotEqual" => some .ne | "GreaterThan" => some .gt | "GreaterThanEqual" => some .ge
  | "LessThan" => some .lt | "LessThanEqual" => some .le | "TildeEqual" => some .tilde
  | _ => none

/-! ### declaration orders -/

theorem string_key_order : Generated.stringKeyVariants = modelStringKeys := by decide

theorem version_key_order :
    Generated.versionKeyVariants.map versionKeyOf = [some .implVer, some .pfv, some .pyVer] ∧
    [VKey.implVer, .pfv, .pyVer].map VKey.idx = [0, 1, 2] := by decide

theorem operator_variants_known : Generated.operatorVariants.all (fun v => (mopOf v).isSome) = true ∧
    Generated.operatorVariants.length = 11 := by decide

/-- the variables of the diagram: `Variable` derives `Ord`, so its declaration order (and, inside the struct variants,
    the order of the fields) IS the variable order — the model orders version keys before string keys (`VarR.lt`), range
    variables above boolean ones (the `Tree` type), `in` before contains before `extra` (`VarB.lt`), key before value,
    valid extra names before verbatim ones (`ExtraVal.lt`) -/
theorem variable_order :
    Generated.variableVariants = ["Version", "String", "In", "Contains", "Extra"] ∧
    Generated.variableFields = [("In", "key,value"), ("Contains", "key,value")] ∧
    Generated.extraValueVariants = ["Extra", "Arbitrary"] ∧
    VarR.lt (.ver .pyVer) (.str ⟨0⟩) = true ∧ VarR.lt (.str ⟨13⟩) (.ver .implVer) = false ∧
    VarB.lt (.isIn ⟨13⟩ "z") (.contains ⟨0⟩ "") = true ∧ VarB.lt (.contains ⟨13⟩ "z") (.extra (.extra "")) = true ∧
    VarB.lt (.extra (.arbitrary "")) (.isIn ⟨0⟩ "") = false ∧
    VarB.lt (.isIn ⟨1⟩ "z") (.isIn ⟨2⟩ "a") = true ∧ VarB.lt (.isIn ⟨1⟩ "a") (.isIn ⟨1⟩ "b") = true ∧
    ExtraVal.lt (.extra "z") (.arbitrary "a") = true ∧ ExtraVal.lt (.arbitrary "a") (.extra "z") = false := by decide

/-! ### key names (`MarkerValue::from_str`) and their Display -/

def expectedKey (kind variant : String) : Option MValue :=
  if kind = "S" then (stringKeyIdx variant).map (fun i => .strKey ⟨i⟩)
  else if kind = "V" then (versionKeyOf variant).map .verKey
  else if kind = "X" then some .extra
  else none

theorem key_names_agree :
    Generated.keyNames.all (fun r => (expectedKey r.2.1 r.2.2).isSome && keyOfName r.1 == expectedKey r.2.1 r.2.2) = true := by
  decide

/-- every variant has a spelling, and nothing else is a key (18 = 14 + 3 + `extra`) -/
theorem key_names_cover : Generated.keyNames.length = 18 ∧
    Generated.stringKeyVariants.all (fun v => Generated.keyNames.any (fun r => r.2.1 == "S" && r.2.2 == v)) = true ∧
    Generated.versionKeyVariants.all (fun v => Generated.keyNames.any (fun r => r.2.1 == "V" && r.2.2 == v)) = true := by
  decide

theorem string_key_display_agrees :
    Generated.stringKeyDisplay.all (fun r => match stringKeyIdx r.1 with
      | some i => skeyText ⟨i⟩ == r.2
      | none => false) = true ∧ Generated.stringKeyDisplay.length = 14 := by decide

theorem version_key_display_agrees :
    Generated.versionKeyDisplay.all (fun r => match versionKeyOf r.1 with
      | some k => vkeyText k == r.2
      | none => false) = true ∧ Generated.versionKeyDisplay.length = 3 := by decide

/-- a key reads the environment field named like its Display name: a deprecated spelling reads the field of the
    modern key it is printed as (`MarkerEnvironment::get_string` / `get_version`) -/
theorem key_reads_the_field_it_is_displayed_as :
    Generated.getString = Generated.stringKeyDisplay ∧ Generated.getVersion = Generated.versionKeyDisplay := by decide

/-! ### operators -/

theorem operator_tokens_agree :
    Generated.operatorTokens.all (fun r => (mopOf r.2).isSome && opOfToken r.1 == mopOf r.2) = true ∧
    Generated.operatorTokens.length = 8 := by decide

/-- the text of an operator, wherever the model prints one (string expressions: `sopText`; versions: `opText`) -/
theorem operator_display_agrees :
    Generated.operatorDisplay.all (fun r => match mopOf r.1 with
      | some m => (match m.toSOp with | some s => sopText s == r.2 | none => true) &&
                  (match m.toPep440 with | some o => opText o == r.2 | none => true)
      | none => false) = true ∧ Generated.operatorDisplay.length = 11 := by decide

theorem operator_invert_agrees :
    Generated.operatorInvert.all (fun r => match mopOf r.1 with
      | some m => some (MOp.invert m) == r.2.bind mopOf
      | none => false) = true ∧ Generated.operatorInvert.length = 11 := by decide

/-- `negate` on the operators of string expressions (the model's `SOp.negate`); `~=` has no negation -/
theorem operator_negate_agrees :
    Generated.operatorNegate.all (fun r => match mopOf r.1 with
      | some m => (match m.toSOp with
          | some s => (r.2.bind mopOf).bind MOp.toSOp == some (SOp.negate s)
          | none => r.2 == none)
      | none => false) = true ∧ Generated.operatorNegate.length = 11 := by decide

/-- … and on the comparison operators it is the model's `Op.negate` too -/
theorem operator_negate_agrees_versions :
    Generated.operatorNegate.all (fun r => match (mopOf r.1).bind MOp.toPep440 with
      | some o => (r.2.bind mopOf).bind MOp.toPep440 == Op.negate o
      | none => true) = true := by decide

theorem operator_to_pep440_agrees :
    Generated.operatorVariants.all (fun v => match mopOf v with
      | some m =>
        let row := (Generated.operatorToPep440.find? (fun r => r.1 == v)).orElse
          (fun _ => Generated.operatorToPep440.find? (fun r => r.1 == "_"))
        (match row with
          | some r => m.toPep440 == r.2.bind op440Of
          | none => false)
      | none => false) = true := by decide

/-! ### supported URL schemes (`Scheme::parse`, `Display for Scheme`) — the table the C18 rule oracle carries -/

/-- the schemes `VerbatimUrl` takes: exactly these 25 texts, one per variant, and `Display` is the inverse of `parse` -/
theorem scheme_tables :
    Generated.schemeParse.map (·.1) =
      ["file", "git+git", "git+http", "git+file", "git+ssh", "git+https", "bzr+http", "bzr+https", "bzr+ssh", "bzr+sftp",
       "bzr+ftp", "bzr+lp", "bzr+file", "hg+file", "hg+http", "hg+https", "hg+ssh", "hg+static-http", "svn+ssh", "svn+http",
       "svn+https", "svn+svn", "svn+file", "http", "https"] ∧
    Generated.schemeParse.map (·.2) = Generated.schemeVariants ∧
    Generated.schemeDisplay = Generated.schemeParse.map (fun r => (r.2, r.1)) := by decide

/-- every scheme is a scheme in the sense of the model's `splitScheme` (`ALPHA (ALPHA | DIGIT | + | - | .)*`) -/
theorem schemes_are_schemes :
    Generated.schemeParse.all (fun r => (splitScheme (r.1 ++ "://h/p").toList).map (·.1) == some r.1.toList) = true := by
  decide

/-! ### archive extensions (`looks_like_archive`) -/

theorem archive_lists :
    Generated.archiveSingle = ["whl", "tbz", "txz", "tlz", "zip", "tgz", "tar"] ∧
    Generated.archivePre = "tar" ∧ Generated.archiveDouble = ["bz2", "xz", "lz", "lzma", "gz"] := by decide

theorem archive_extensions_accepted :
    Generated.archiveSingle.all (fun e => looksLikeArchive ("a." ++ e).toList) = true ∧
    Generated.archiveDouble.all (fun e => looksLikeArchive ("a." ++ Generated.archivePre ++ "." ++ e).toList) = true ∧
    Generated.archiveDouble.all (fun e => !looksLikeArchive ("a." ++ e).toList) = true := by decide

end Pep508.Tables
