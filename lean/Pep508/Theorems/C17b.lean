/-
C17, central clause, over ALL positions of a marker: "when a marker contains a comparison that
cannot be interpreted, parsing still succeeds, at least one warning of the matching kind reaches
the reporter, and the result equals the marker with exactly that comparison removed (TRUE if
nothing remains)".

Vocabulary (`Pep508/Proofs/DropRemoval.lean`, on top of the layout ASTs of C01b):
* `MAst.atoms m` — the comparison texts of the derivation, left to right;
  `MAst.DroppedAtom x a` — `(atomSem x a).1 = none`: the typed dispatch drops the comparison;
  `MAst.keptAtom x a` — its Boolean negation.
* `MAst.prune x m : Option MAst` — the derivation with every dropped comparison REMOVED, together
  with one adjacent keyword: `l ws and r` becomes `l` (resp. `r`, which keeps its own leading blanks)
  when `r` (resp. `l`) is pruned away; parentheses around nothing disappear; `none` = nothing remains.
* `MAst.Gaps` — the keyword-left-boundary conditions of `MAst.WF` alone; `MAst.Spaced` (every keyword
  preceded by a blank) and `MAst.AllClosed` (every comparison ends with a quoted string) imply them.

Atom coverage (`Pep508/Proofs/AtomShapes.lean`): `atomLOR l w1 o w2 r` is the comparison text
`l w1 o w2 r`, `l`, `r` value tokens (`VTok.key name` / `VTok.str quote text`), `o` an operator token
(`OTok.sym chars` / `OTok.isIn` / `OTok.notIn blanks`).  ALL 2 × 3 × 2 shapes satisfy `AtomOK`.
-/
import Pep508.Proofs.DropRemoval
import Pep508.Proofs.AtomShapes
namespace Pep508.C17
open Pep508 Pep508.Cursor

/-! ### definitions, restated -/

example (ws a : List Char) : (MAst.atom ws a).atoms = [a] := rfl
example (ws1 ws2 : List Char) (m : MAst) : (MAst.paren ws1 m ws2).atoms = m.atoms := rfl
example (l r : MAst) (ws : List Char) : (MAst.and l ws r).atoms = l.atoms ++ r.atoms := rfl
example (l r : MAst) (ws : List Char) : (MAst.or l ws r).atoms = l.atoms ++ r.atoms := rfl

example (x : Ext) (a : List Char) : MAst.DroppedAtom x a ↔ (atomSem x a).1 = none := Iff.rfl
example (x : Ext) (a : List Char) : MAst.keptAtom x a = (atomSem x a).1.isSome := rfl

example (x : Ext) (ws a : List Char) :
    (MAst.atom ws a).prune x = if MAst.keptAtom x a then some (.atom ws a) else none := rfl
example (x : Ext) (ws1 ws2 : List Char) (m : MAst) : (MAst.paren ws1 m ws2).prune x =
    match m.prune x with
    | some m' => some (.paren ws1 m' ws2)
    | none => none := rfl
example (x : Ext) (l r : MAst) (ws : List Char) : (MAst.and l ws r).prune x =
    match l.prune x, r.prune x with
    | some l', some r' => some (.and l' ws r')
    | some l', none => some l'
    | none, r' => r' := rfl
example (x : Ext) (l r : MAst) (ws : List Char) : (MAst.or l ws r).prune x =
    match l.prune x, r.prune x with
    | some l', some r' => some (.or l' ws r')
    | some l', none => some l'
    | none, r' => r' := rfl

/-! ### (R1) the marker of a derivation is the marker of the derivation with the dropped comparisons removed -/

/-- the tree denoted by `m` IS the tree denoted by the pruned derivation -/
theorem drop_is_removal (x : Ext) (m : MAst) :
    (m.denote x).1 = match m.prune x with
      | some m' => (m'.denote x).1
      | none => none := MAst.denote_prune x m

/-- the warnings are the concatenation of all comparisons' warnings, in text order -/
theorem warnings_in_order (x : Ext) (m : MAst) :
    (m.denote x).2 = m.atoms.flatMap (fun a => (atomSem x a).2) := MAst.denote_warns x m

/-- every warning of every comparison (dropped or kept) reaches the reporter -/
theorem every_warning_reported (x : Ext) (m : MAst) (a : List Char) (ha : a ∈ m.atoms)
    (k : WarnKind) (hk : k ∈ (atomSem x a).2) : k ∈ (m.denote x).2 := MAst.atom_warn_mem x m ha hk

/-- a comparison that parses in context is a dispatch result … -/
theorem atom_is_dispatch (x : Ext) (a : List Char) (h : AtomOK x a) :
    ∃ l op r, atomSem x a = dispatch x l op r := atomOK_dispatch h

/-- … hence a dropped one reports at least one warning (C17 `never_silently`, in position) -/
theorem dropped_reports (x : Ext) (a : List Char) (h : AtomOK x a) (hd : MAst.DroppedAtom x a) :
    (atomSem x a).2 ≠ [] := dropped_warns h hd

/-- what remains: the kept comparisons, in order; pruning again changes nothing; what remains
denotes a tree -/
theorem pruned_atoms (x : Ext) (m m' : MAst) (h : m.prune x = some m') :
    m'.atoms = m.atoms.filter (MAst.keptAtom x) ∧ m'.prune x = some m' ∧
      ∃ t, (m'.denote x).1 = some t :=
  ⟨MAst.prune_some_atoms h, MAst.prune_idem h, MAst.prune_some_tree h⟩

/-- nothing remains iff every comparison is dropped iff the marker is the default TRUE -/
theorem nothing_remains_iff (x : Ext) (m : MAst) :
    (m.prune x = none ↔ ∀ a ∈ m.atoms, MAst.DroppedAtom x a) ∧
    ((m.denote x).1 = none ↔ ∀ a ∈ m.atoms, MAst.DroppedAtom x a) :=
  ⟨MAst.prune_none_iff x m, MAst.denote_none_iff x m⟩

/-! ### (R2) the parser -/

/-- the parser on every well-formed layout: success, the tree of the pruned derivation (TRUE when
nothing remains), all warnings in text order -/
theorem parse_is_pruned (x : Ext) (m : MAst) (trail : List Char) (hwf : m.WF) (hat : m.AtomsOK x)
    (ht : ∀ ch ∈ trail, isWs ch = true) :
    parseMarkers x (m.layout ++ trail) =
      .ok ((match m.prune x with
            | some m' => (m'.denote x).1
            | none => none).getD (.leaf true),
        m.atoms.flatMap (fun a => (atomSem x a).2)) :=
  parseMarkers_prune x m trail hwf hat ht

/-- THE central clause.  A well-formed layout containing, at any position, a comparison `a` that is
lexed as `l op r` with `uninterpretable l op r = some k`: parsing succeeds, `k` is among the
reported warnings, `a` is not among the comparisons that remain, and the tree is the tree of the
derivation with the dropped comparisons removed. -/
theorem uninterpretable_anywhere (x : Ext) (m : MAst) (trail : List Char) (hwf : m.WF)
    (hat : m.AtomsOK x) (ht : ∀ ch ∈ trail, isWs ch = true)
    (a : List Char) (ha : a ∈ m.atoms) (l r : MValue) (op : MOp) (k : WarnKind)
    (hsem : atomSem x a = dispatch x l op r) (hu : uninterpretable l op r = some k) :
    ∃ T W, parseMarkers x (m.layout ++ trail) = .ok (T, W) ∧ k ∈ W ∧
      MAst.DroppedAtom x a ∧ a ∉ m.atoms.filter (MAst.keptAtom x) ∧
      T = (match m.prune x with
            | some m' => (m'.denote x).1
            | none => none).getD (.leaf true) := by
  have hd := dispatch_uninterpretable x l op r k hu
  rw [← hsem] at hd
  refine ⟨_, _, parse_is_pruned x m trail hwf hat ht, List.mem_flatMap.2 ⟨a, ha, hd.2⟩, hd.1, ?_, rfl⟩
  intro hmem
  have := (List.mem_filter.1 hmem).2
  rw [MAst.keptAtom_false.2 hd.1] at this
  cases this

/-- the original text and the text with the dropped comparisons removed parse to the SAME tree;
the second reports the warnings of the kept comparisons only.  `m'.Gaps` (the keyword-left-boundary
conditions of the pruned layout) is needed for the second text to be a well-formed layout. -/
theorem parse_same_tree (x : Ext) (m m' : MAst) (trail trail' : List Char) (hwf : m.WF)
    (hat : m.AtomsOK x) (hp : m.prune x = some m') (hg : m'.Gaps)
    (ht : ∀ ch ∈ trail, isWs ch = true) (ht' : ∀ ch ∈ trail', isWs ch = true) :
    ∃ T, parseMarkers x (m.layout ++ trail) =
          .ok (T, m.atoms.flatMap (fun a => (atomSem x a).2)) ∧
      parseMarkers x (m'.layout ++ trail') =
          .ok (T, (m.atoms.filter (MAst.keptAtom x)).flatMap (fun a => (atomSem x a).2)) ∧
      (m'.denote x).1 = some T :=
  parseMarkers_prune_same x m m' trail trail' hwf hat hp hg ht ht'

/-- nothing remains: TRUE -/
theorem parse_all_dropped (x : Ext) (m : MAst) (trail : List Char) (hwf : m.WF) (hat : m.AtomsOK x)
    (hp : m.prune x = none) (ht : ∀ ch ∈ trail, isWs ch = true) :
    parseMarkers x (m.layout ++ trail) =
      .ok (.leaf true, m.atoms.flatMap (fun a => (atomSem x a).2)) :=
  parseMarkers_prune_none x m trail hwf hat hp ht

/-- well-formedness of the pruned layout: every condition of `WF` survives the removal except the
keyword-left-boundary ones, which decide -/
theorem pruned_wf_iff (x : Ext) (m m' : MAst) (hwf : m.WF) (hp : m.prune x = some m') :
    m'.WF ↔ m'.Gaps := MAst.prune_wf_iff hwf hp

/-- `AtomsOK` always survives -/
theorem pruned_atomsOK (x : Ext) (m m' : MAst) (hp : m.prune x = some m') (hat : m.AtomsOK x) :
    m'.AtomsOK x := MAst.prune_atomsOK hp hat

/-- sufficient: every keyword of the original is preceded by a blank -/
theorem pruned_wf_of_spaced (x : Ext) (m m' : MAst) (hwf : m.WF) (hs : m.Spaced)
    (hp : m.prune x = some m') : m'.WF ∧ m'.Spaced :=
  ⟨MAst.prune_wf hwf hp (MAst.prune_spaced hs hp).gaps, MAst.prune_spaced hs hp⟩

/-- sufficient: every comparison of the original ends with a quoted string -/
theorem pruned_wf_of_closed (x : Ext) (m m' : MAst) (hwf : m.WF) (hc : m.AllClosed)
    (hp : m.prune x = some m') : m'.WF ∧ m'.AllClosed :=
  ⟨MAst.prune_wf hwf hp (MAst.prune_allClosed hc hp).gaps, MAst.prune_allClosed hc hp⟩

example (l r : MAst) (ws : List Char) :
    (MAst.and l ws r).Gaps ↔ l.Gaps ∧ r.Gaps ∧ (l.closed = true ∨ ws ≠ []) := Iff.rfl
example (l r : MAst) (ws : List Char) :
    (MAst.and l ws r).Spaced ↔ l.Spaced ∧ r.Spaced ∧ ws ≠ [] := Iff.rfl
example (m : MAst) : m.AllClosed ↔ ∀ a ∈ m.atoms, endsQuote a = true := Iff.rfl

/-! ### (R4, R3) atom coverage: every comparison shape -/

example (l r : VTok) (o : OTok) (w1 w2 : List Char) :
    atomLOR l w1 o w2 r = l.text ++ (w1 ++ (o.text ++ (w2 ++ r.text))) := rfl
example (k : List Char) : (VTok.key k).text = k := rfl
example (q : Char) (v : List Char) : (VTok.str q v).text = q :: (v ++ [q]) := rfl
example (o : List Char) : (OTok.sym o).text = o := rfl
example : OTok.isIn.text = ['i', 'n'] := rfl
example (wn : List Char) : (OTok.notIn wn).text = ['n', 'o', 't'] ++ (wn ++ ['i', 'n']) := rfl

example (k : List Char) (kv : MValue) :
    (VTok.key k).Lex kv ↔ keyOfName (String.ofList k) = some kv := Iff.rfl
example (q : Char) (v : List Char) (kv : MValue) :
    (VTok.str q v).Lex kv ↔
      (q == '"' || q == '\'') = true ∧ (∀ ch ∈ v, (ch != q) = true) ∧ kv = .quoted v := Iff.rfl
example (x : Ext) (o : List Char) (op : MOp) : (OTok.sym o).Lex x op ↔
    (∀ ch ∈ o, symChar ch = true) ∧ opOfToken (String.ofList o) = some op := Iff.rfl
example (x : Ext) (op : MOp) : OTok.isIn.Lex x op ↔ x.alpha 'i' = true ∧ op = .isIn := Iff.rfl
example (x : Ext) (wn : List Char) (op : MOp) : (OTok.notIn wn).Lex x op ↔
    x.alpha 'n' = true ∧ (∀ ch ∈ wn, isWs ch = true) ∧ wn ≠ [] ∧ op = .notIn := Iff.rfl

example (x : Ext) (l r : VTok) (o : OTok) (w1 w2 : List Char) : Glue x l w1 o w2 r ↔
    (l.isKey = true → o.isWord = true → w1 ≠ []) ∧
    (r.isKey = true → w2 = [] →
      match o with
      | .sym _ => ∀ ch, symChar ch = true → x.alpha ch = false
      | .isIn => False
      | .notIn _ => True) := Iff.rfl

/-- EVERY comparison shape parses the same in every context, to the typed dispatch of its tokens -/
theorem atom_shape (x : Ext) {l r : VTok} {o : OTok} {w1 w2 : List Char} {lv rv : MValue} {op : MOp}
    (hl : l.Lex lv) (ho : o.Lex x op) (hr : r.Lex rv)
    (hw1 : ∀ ch ∈ w1, isWs ch = true) (hw2 : ∀ ch ∈ w2, isWs ch = true) (hg : Glue x l w1 o w2 r) :
    AtomOK x (atomLOR l w1 o w2 r) ∧
      atomSem x (atomLOR l w1 o w2 r) = dispatch x lv op rv ∧
      endsQuote (atomLOR l w1 o w2 r) = !r.isKey ∧
      AtomHead (atomLOR l w1 o w2 r) :=
  have h := atomOK_lor x hl ho hr hw1 hw2 hg
  ⟨h.1, h.2, endsQuote_lor o w1 w2 hr, atomHead_lor hl w1 o w2 r⟩

/-- (R4) `key in 'v'`: at least one blank before `in` -/
theorem atom_key_in_string (x : Ext) {k w1 w2 v : List Char} {q : Char} {kv : MValue}
    (hkey : keyOfName (String.ofList k) = some kv)
    (hw1 : ∀ ch ∈ w1, isWs ch = true) (hne : w1 ≠ []) (hw2 : ∀ ch ∈ w2, isWs ch = true)
    (hq : isQuote q = true) (hv : ∀ ch ∈ v, (ch != q) = true) (ha : x.alpha 'i' = true) :
    AtomOK x (k ++ (w1 ++ (['i', 'n'] ++ (w2 ++ (q :: (v ++ [q])))))) ∧
      atomSem x (k ++ (w1 ++ (['i', 'n'] ++ (w2 ++ (q :: (v ++ [q])))))) =
        dispatch x kv .isIn (.quoted v) :=
  atomOK_lor x (l := .key k) (o := .isIn) (r := .str q v) hkey ⟨ha, rfl⟩ ⟨hq, hv, rfl⟩ hw1 hw2
    ⟨fun _ _ => hne, fun h => by cases h⟩

/-- (R4) `key not in 'v'`: at least one blank before `not`, at least one between `not` and `in` -/
theorem atom_key_notin_string (x : Ext) {k w1 wn w2 v : List Char} {q : Char} {kv : MValue}
    (hkey : keyOfName (String.ofList k) = some kv)
    (hw1 : ∀ ch ∈ w1, isWs ch = true) (hne : w1 ≠ [])
    (hwn : ∀ ch ∈ wn, isWs ch = true) (hnn : wn ≠ []) (hw2 : ∀ ch ∈ w2, isWs ch = true)
    (hq : isQuote q = true) (hv : ∀ ch ∈ v, (ch != q) = true) (ha : x.alpha 'n' = true) :
    AtomOK x (k ++ (w1 ++ ((['n', 'o', 't'] ++ (wn ++ ['i', 'n'])) ++ (w2 ++ (q :: (v ++ [q])))))) ∧
      atomSem x (k ++ (w1 ++ ((['n', 'o', 't'] ++ (wn ++ ['i', 'n'])) ++ (w2 ++ (q :: (v ++ [q])))))) =
        dispatch x kv .notIn (.quoted v) :=
  atomOK_lor x (l := .key k) (o := .notIn wn) (r := .str q v) hkey ⟨ha, hwn, hnn, rfl⟩ ⟨hq, hv, rfl⟩
    hw1 hw2 ⟨fun _ _ => hne, fun h => by cases h⟩

/-- (R4) `'v' in key`: at least one blank after `in` (none needed before it) -/
theorem atom_string_in_key (x : Ext) {k w1 w2 v : List Char} {q : Char} {kv : MValue}
    (hkey : keyOfName (String.ofList k) = some kv)
    (hw1 : ∀ ch ∈ w1, isWs ch = true) (hw2 : ∀ ch ∈ w2, isWs ch = true) (hne : w2 ≠ [])
    (hq : isQuote q = true) (hv : ∀ ch ∈ v, (ch != q) = true) (ha : x.alpha 'i' = true) :
    AtomOK x ((q :: (v ++ [q])) ++ (w1 ++ (['i', 'n'] ++ (w2 ++ k)))) ∧
      atomSem x ((q :: (v ++ [q])) ++ (w1 ++ (['i', 'n'] ++ (w2 ++ k)))) =
        dispatch x (.quoted v) .isIn kv :=
  atomOK_lor x (l := .str q v) (o := .isIn) (r := .key k) ⟨hq, hv, rfl⟩ ⟨ha, rfl⟩ hkey hw1 hw2
    ⟨fun h => (by cases h), fun _ h => hne h⟩

/-- (R4) `'v' not in key`: at least one blank between `not` and `in`; NO blank is needed between
`in` and the key name (`'v' not inos_name` is accepted: after `not` the lexer only checks the two
letters `i`, `n`) -/
theorem atom_string_notin_key (x : Ext) {k w1 wn w2 v : List Char} {q : Char} {kv : MValue}
    (hkey : keyOfName (String.ofList k) = some kv)
    (hw1 : ∀ ch ∈ w1, isWs ch = true) (hwn : ∀ ch ∈ wn, isWs ch = true) (hnn : wn ≠ [])
    (hw2 : ∀ ch ∈ w2, isWs ch = true)
    (hq : isQuote q = true) (hv : ∀ ch ∈ v, (ch != q) = true) (ha : x.alpha 'n' = true) :
    AtomOK x ((q :: (v ++ [q])) ++ (w1 ++ ((['n', 'o', 't'] ++ (wn ++ ['i', 'n'])) ++ (w2 ++ k)))) ∧
      atomSem x ((q :: (v ++ [q])) ++ (w1 ++ ((['n', 'o', 't'] ++ (wn ++ ['i', 'n'])) ++ (w2 ++ k)))) =
        dispatch x (.quoted v) .notIn kv :=
  atomOK_lor x (l := .str q v) (o := .notIn wn) (r := .key k) ⟨hq, hv, rfl⟩ ⟨ha, hwn, hnn, rfl⟩ hkey
    hw1 hw2 ⟨fun h => (by cases h), fun _ _ => trivial⟩

/-- the hypothesis on `char::is_alphabetic` is needed: when it is false of `i`, `os_name in 'a'` is a
parse error (the symbolic-operator run at byte 8 is empty) -/
theorem word_operator_needs_alpha :
    (match parseMarkers ⟨fun _ => none, fun _ => none, fun _ => false⟩ "os_name in 'a'".toList with
      | .err e => e == ⟨.string, 8, 0⟩
      | _ => false) = true := by decide

/-- (R3) two literals, any operator token: `AtomOK`, dropped, exactly one string-string warning -/
theorem atom_string_op_string (x : Ext) {v1 v2 w1 w2 : List Char} {q1 q2 : Char} {o : OTok} {op : MOp}
    (ho : o.Lex x op) (hw1 : ∀ ch ∈ w1, isWs ch = true) (hw2 : ∀ ch ∈ w2, isWs ch = true)
    (hq1 : isQuote q1 = true) (hv1 : ∀ ch ∈ v1, (ch != q1) = true)
    (hq2 : isQuote q2 = true) (hv2 : ∀ ch ∈ v2, (ch != q2) = true) :
    AtomOK x (atomLOR (.str q1 v1) w1 o w2 (.str q2 v2)) ∧
      atomSem x (atomLOR (.str q1 v1) w1 o w2 (.str q2 v2)) = (none, [.stringStringComparison]) :=
  atomOK_lor x (l := .str q1 v1) (r := .str q2 v2) ⟨hq1, hv1, rfl⟩ ho ⟨hq2, hv2, rfl⟩ hw1 hw2
    ⟨fun h => (by cases h), fun h => by cases h⟩

/-- the warning kind of a comparison of two keys: decided by the LEFT key -/
def leftKeyKind : MValue → WarnKind
  | .verKey _ => .pep440Error
  | .strKey _ => .markerMarkerComparison
  | _ => .extraInvalidComparison

/-- what two keys dispatch to: always dropped, the kind is decided by the LEFT key -/
theorem dispatch_key_key (x : Ext) (op : MOp) {lv rv : MValue}
    (hl : ∀ s, lv ≠ .quoted s) (hr : ∀ s, rv ≠ .quoted s) :
    dispatch x lv op rv = (none, [leftKeyKind lv]) := by
  cases lv with
  | quoted s => exact absurd rfl (hl s)
  | verKey k => cases rv <;> first | rfl | exact absurd rfl (hr _)
  | strKey k => cases rv <;> first | rfl | exact absurd rfl (hr _)
  | extra => cases rv <;> first | rfl | exact absurd rfl (hr _)

theorem keyOfName_not_quoted {s : String} {kv : MValue} (h : keyOfName s = some kv) (t : List Char) :
    kv ≠ .quoted t := by
  rintro rfl
  unfold keyOfName at h
  split at h <;> cases h

/-- (R3) two keys, any operator token: `AtomOK`, dropped, one warning whose kind depends on the
left key: version key → PEP 440, string key → marker-marker, `extra` → extra-invalid -/
theorem atom_key_op_key (x : Ext) {k1 k2 w1 w2 : List Char} {o : OTok} {op : MOp} {lv rv : MValue}
    (hk1 : keyOfName (String.ofList k1) = some lv) (hk2 : keyOfName (String.ofList k2) = some rv)
    (ho : o.Lex x op) (hw1 : ∀ ch ∈ w1, isWs ch = true) (hw2 : ∀ ch ∈ w2, isWs ch = true)
    (hg : Glue x (.key k1) w1 o w2 (.key k2)) :
    AtomOK x (atomLOR (.key k1) w1 o w2 (.key k2)) ∧
      atomSem x (atomLOR (.key k1) w1 o w2 (.key k2)) = (none, [leftKeyKind lv]) := by
  have h := atomOK_lor x (l := .key k1) (r := .key k2) hk1 ho hk2 hw1 hw2 hg
  rw [dispatch_key_key x op (keyOfName_not_quoted hk1) (keyOfName_not_quoted hk2)] at h
  exact h

/-- (R3) any shape whose tokens are an uninterpretable triple is dropped with the matching kind -/
theorem shape_dropped (x : Ext) {l r : VTok} {o : OTok} {w1 w2 : List Char} {lv rv : MValue} {op : MOp}
    {k : WarnKind} (hl : l.Lex lv) (ho : o.Lex x op) (hr : r.Lex rv)
    (hw1 : ∀ ch ∈ w1, isWs ch = true) (hw2 : ∀ ch ∈ w2, isWs ch = true) (hg : Glue x l w1 o w2 r)
    (hu : uninterpretable lv op rv = some k) :
    AtomOK x (atomLOR l w1 o w2 r) ∧ MAst.DroppedAtom x (atomLOR l w1 o w2 r) ∧
      k ∈ (atomSem x (atomLOR l w1 o w2 r)).2 := by
  have h := atomOK_lor x hl ho hr hw1 hw2 hg
  have hd := dispatch_uninterpretable x lv op rv k hu
  rw [← h.2] at hd
  exact ⟨h.1, hd.1, hd.2⟩

/-- the dispatch table rows used below, as equations (for every `Ext`) -/
theorem dispatch_strKey_tilde (x : Ext) (k : SKey) (v : List Char) :
    dispatch x (.strKey k) .tilde (.quoted v) = (none, [.lexicographicComparison]) ∧
    dispatch x (.quoted v) .tilde (.strKey k) = (none, [.lexicographicComparison]) := ⟨rfl, rfl⟩

/-- a version key against a literal that pep440 rejects (as a version pattern): dropped, one
PEP 440 warning — for every symbolic operator -/
theorem dispatch_verKey_bad (x : Ext) (k : VKey) (op : MOp) (v : List Char)
    (hop : op ≠ .isIn ∧ op ≠ .notIn) (hv : x.pat v = none) :
    dispatch x (.verKey k) op (.quoted v) = (none, [.pep440Error]) := by
  have : (op == .isIn || op == .notIn) = false := by
    cases op <;> simp at hop ⊢
  simp only [dispatch, this, Bool.false_eq_true, if_false, parseVersionExpr, hv]

/-- inverted: the literal must be a plain version -/
theorem dispatch_bad_verKey (x : Ext) (k : VKey) (op : MOp) (v : List Char) (hv : x.ver v = none) :
    dispatch x (.quoted v) op (.verKey k) = (none, [.pep440Error]) := by
  simp only [dispatch, parseInvertedVersionExpr, hv]

/-- `version_key in 'not a version list'`: dropped and reported TWICE (once by
`parse_version_in_expr`, once by the `parse_version_expr` fallback, which can never succeed for
`in` / `not in`) -/
theorem dispatch_verKey_in_bad (x : Ext) (k : VKey) (op : MOp) (v : List Char)
    (hop : op = .isIn ∨ op = .notIn) (hv : splitVersions x (v.length + 1) v [] = none) :
    dispatch x (.verKey k) op (.quoted v) = (none, [.pep440Error, .pep440Error]) := by
  have h1 : parseVersionExpr x k op v = (none, [.pep440Error]) := by
    unfold parseVersionExpr
    rcases hop with rfl | rfl <;> (cases x.pat v <;> simp [MOp.toPep440])
  have h2 : (op == .isIn || op == .notIn) = true := by rcases hop with rfl | rfl <;> rfl
  simp only [dispatch, h2, if_true, hv, h1]

/-- `extra` with an ordering / containment operator: dropped, extra-invalid reported (twice when
the literal is not a valid extra name either) -/
theorem dispatch_extra_bad (x : Ext) (op : MOp) (v : List Char) (hop : op ≠ .eq ∧ op ≠ .ne) :
    (dispatch x .extra op (.quoted v)).1 = none ∧
      .extraInvalidComparison ∈ (dispatch x .extra op (.quoted v)).2 ∧
    (dispatch x (.quoted v) op .extra).1 = none ∧
      .extraInvalidComparison ∈ (dispatch x (.quoted v) op .extra).2 := by
  have hno : ¬ (op = .eq ∨ op = .ne) := fun h => h.elim hop.1 hop.2
  exact ⟨(parseExtraExpr_fst _ _).2 hno, parseExtraExpr_snd_of_ne _ _ hno,
    (parseExtraExpr_fst _ _).2 hno, parseExtraExpr_snd_of_ne _ _ hno⟩

/-! ### (R5) concrete texts, for every `Ext`, derived from the theorems -/

private def osName : VTok := .key "os_name".toList
private def pyVer : VTok := .key "python_version".toList
private def lit (v : String) : VTok := .str '\'' v.toList
private def eqeq : OTok := .sym ['=', '=']
private def tilde : OTok := .sym ['~', '=']

private theorem osName_lex : osName.Lex (.strKey ⟨1⟩) := by
  show keyOfName (String.ofList "os_name".toList) = some _; decide
private theorem pyVer_lex : pyVer.Lex (.verKey .pyVer) := by
  show keyOfName (String.ofList "python_version".toList) = some _; decide
private theorem eqeq_lex (x : Ext) : eqeq.Lex x .eq := ⟨by decide, by decide⟩
private theorem tilde_lex (x : Ext) : tilde.Lex x .tilde := ⟨by decide, by decide⟩
private theorem glue_lit (x : Ext) (l : VTok) (o : OTok) (v : String) (h : o.isWord = false) :
    Glue x l [' '] o [' '] (lit v) :=
  ⟨fun _ h' => (by rw [h] at h'; cases h'), fun h' => by cases h'⟩
private theorem glue_sp (x : Ext) (v : String) (o : OTok) (r : VTok) : Glue x (lit v) [' '] o [' '] r :=
  ⟨fun h' => (by cases h'), fun _ h' => by cases h'⟩

/-- `'a' == 'b'` -/
private def aEqB : List Char := atomLOR (lit "a") [' '] eqeq [' '] (lit "b")
/-- `os_name == 'nt'` -/
private def osNt : List Char := atomLOR osName [' '] eqeq [' '] (lit "nt")
/-- `os_name == 'a'` -/
private def osA : List Char := atomLOR osName [' '] eqeq [' '] (lit "a")
/-- `'x' ~= os_name` (the F7 witness) -/
private def xTildeOs : List Char := atomLOR (lit "x") [' '] tilde [' '] osName
/-- `python_version == 'abc'` -/
private def pyAbc : List Char := atomLOR pyVer [' '] eqeq [' '] (lit "abc")

example : aEqB = "'a' == 'b'".toList := by decide
example : osNt = "os_name == 'nt'".toList := by decide
example : xTildeOs = "'x' ~= os_name".toList := by decide
example : pyAbc = "python_version == 'abc'".toList := by decide

private theorem aEqB_ok (x : Ext) :
    AtomOK x aEqB ∧ atomSem x aEqB = (none, [.stringStringComparison]) ∧ endsQuote aEqB = true ∧
      AtomHead aEqB :=
  atom_shape x (l := lit "a") (r := lit "b") ⟨by decide, by decide, rfl⟩ (eqeq_lex x)
    ⟨by decide, by decide, rfl⟩ (by decide) (by decide) (glue_sp x _ _ _)

private theorem osNt_ok (x : Ext) :
    AtomOK x osNt ∧ atomSem x osNt = (some (.string ⟨1⟩ .eq "nt"), []) ∧ endsQuote osNt = true ∧
      AtomHead osNt :=
  atom_shape x (l := osName) (r := lit "nt") osName_lex (eqeq_lex x) ⟨by decide, by decide, rfl⟩
    (by decide) (by decide) (glue_lit x _ _ _ rfl)

private theorem osA_ok (x : Ext) :
    AtomOK x osA ∧ atomSem x osA = (some (.string ⟨1⟩ .eq "a"), []) ∧ endsQuote osA = true ∧
      AtomHead osA :=
  atom_shape x (l := osName) (r := lit "a") osName_lex (eqeq_lex x) ⟨by decide, by decide, rfl⟩
    (by decide) (by decide) (glue_lit x _ _ _ rfl)

private theorem xTildeOs_ok (x : Ext) :
    AtomOK x xTildeOs ∧ atomSem x xTildeOs = (none, [.lexicographicComparison]) ∧
      endsQuote xTildeOs = false ∧ AtomHead xTildeOs :=
  atom_shape x (l := lit "x") (r := osName) ⟨by decide, by decide, rfl⟩ (tilde_lex x) osName_lex
    (by decide) (by decide) (glue_sp x _ _ _)

private theorem pyAbc_ok (x : Ext) (h : x.pat "abc".toList = none) :
    AtomOK x pyAbc ∧ atomSem x pyAbc = (none, [.pep440Error]) ∧ endsQuote pyAbc = true ∧
      AtomHead pyAbc := by
  have := atom_shape x (l := pyVer) (r := lit "abc") pyVer_lex (eqeq_lex x) ⟨by decide, by decide, rfl⟩
    (by decide) (by decide) (glue_lit x _ _ _ rfl)
  rw [dispatch_verKey_bad x _ _ _ (by decide) h] at this
  exact this

/-- `('a' == 'b') or os_name == 'nt'`: the tree of `os_name == 'nt'`, one string-string warning -/
theorem example_paren_or (x : Ext) :
    parseMarkers x "('a' == 'b') or os_name == 'nt'".toList =
      .ok (expression (.string ⟨1⟩ .eq "nt"), [.stringStringComparison]) := by
  have ha := aEqB_ok x
  have hb := osNt_ok x
  have h := parseMarkers_layout x (.or (.paren [] (.atom [] aEqB) []) [' '] (.atom [' '] osNt)) []
    ⟨⟨AllP.nil _, AllP.nil _, AllP.nil _, ha.2.2.2⟩, ⟨by decide, hb.2.2.2⟩, rfl, by decide, .inl rfl,
      ⟨' ', _, rfl, by decide⟩⟩
    ⟨ha.1, hb.1⟩ (AllP.nil _)
  simp only [MAst.denote, ha.2.1, hb.2.1] at h
  exact h

/-- … and its pruned derivation is the text ` os_name == 'nt'` (the blank after `or` belongs to the
comparison), which parses to the same tree with no warning -/
theorem example_paren_or_pruned (x : Ext) :
    (MAst.or (.paren [] (.atom [] aEqB) []) [' '] (.atom [' '] osNt)).prune x =
        some (.atom [' '] osNt) ∧
      parseMarkers x " os_name == 'nt'".toList = .ok (expression (.string ⟨1⟩ .eq "nt"), []) := by
  have ha := aEqB_ok x
  have hb := osNt_ok x
  refine ⟨by simp [MAst.prune, MAst.keptAtom, ha.2.1, hb.2.1], ?_⟩
  have h := parseMarkers_layout x (.atom [' '] osNt) [] ⟨by decide, hb.2.2.2⟩ hb.1 (AllP.nil _)
  simp only [MAst.denote, hb.2.1] at h
  exact h

/-- a dropped comparison in the MIDDLE of an `and` chain, inside parentheses:
`os_name == 'a' and ('x' ~= os_name and os_name == 'nt')` -/
theorem example_middle (x : Ext) :
    parseMarkers x "os_name == 'a' and ('x' ~= os_name and os_name == 'nt')".toList =
      .ok (Tree.and (expression (.string ⟨1⟩ .eq "a")) (expression (.string ⟨1⟩ .eq "nt")),
        [.lexicographicComparison]) := by
  have ha := osA_ok x
  have hb := xTildeOs_ok x
  have hc := osNt_ok x
  have h := parseMarkers_layout x
    (.and (.atom [] osA) [' '] (.paren [' '] (.and (.atom [] xTildeOs) [' '] (.atom [' '] osNt)) [])) []
    ⟨⟨AllP.nil _, ha.2.2.2⟩,
      ⟨by decide, AllP.nil _, ⟨AllP.nil _, hb.2.2.2⟩, ⟨by decide, hc.2.2.2⟩, rfl, rfl, by decide,
        .inr (by decide), ⟨' ', _, rfl, by decide⟩⟩,
      rfl, rfl, by decide, .inr (by decide), ⟨' ', _, rfl, by decide⟩⟩
    ⟨ha.1, hb.1, hc.1⟩ (AllP.nil _)
  simp only [MAst.denote, ha.2.1, hb.2.1, hc.2.1] at h
  exact h

/-- everything dropped: TRUE, both warnings in text order
(`x` must reject `abc` as a version pattern, as pep440_rs does) -/
theorem example_all_dropped (x : Ext) (hx : x.pat "abc".toList = none) :
    parseMarkers x "'a' == 'b' or python_version == 'abc' and 'x' ~= os_name".toList =
      .ok (.leaf true, [.stringStringComparison, .pep440Error, .lexicographicComparison]) := by
  have ha := aEqB_ok x
  have hb := pyAbc_ok x hx
  have hc := xTildeOs_ok x
  have h := parseMarkers_layout x
    (.or (.atom [] aEqB) [' '] (.and (.atom [' '] pyAbc) [' '] (.atom [' '] xTildeOs))) []
    ⟨⟨AllP.nil _, ha.2.2.2⟩,
      ⟨⟨by decide, hb.2.2.2⟩, ⟨by decide, hc.2.2.2⟩, rfl, rfl, by decide, .inr (by decide),
        ⟨' ', _, rfl, by decide⟩⟩,
      rfl, by decide, .inr (by decide), ⟨' ', _, rfl, by decide⟩⟩
    ⟨ha.1, hb.1, hc.1⟩ (AllP.nil _)
  simp only [MAst.denote, ha.2.1, hb.2.1, hc.2.1] at h
  exact h

/-- word operators in a chain: `os_name in 'nt posix' and 'a' == 'b'`, for every `Ext` whose
`is_alphabetic` holds of `i` -/
theorem example_in (x : Ext) (hi : x.alpha 'i' = true) :
    parseMarkers x "os_name in 'nt posix' and 'a' == 'b'".toList =
      .ok (expression (.string ⟨1⟩ .isIn "nt posix"), [.stringStringComparison]) := by
  have ha := atom_shape x (l := osName) (o := .isIn) (r := lit "nt posix") (w1 := [' ']) (w2 := [' '])
    osName_lex ⟨hi, rfl⟩ ⟨by decide, by decide, rfl⟩ (by decide) (by decide)
    ⟨fun _ _ => (by decide), fun h => by cases h⟩
  have hb := aEqB_ok x
  have h := parseMarkers_layout x
    (.and (.atom [] (atomLOR osName [' '] .isIn [' '] (lit "nt posix"))) [' '] (.atom [' '] aEqB)) []
    ⟨⟨AllP.nil _, ha.2.2.2⟩, ⟨by decide, hb.2.2.2⟩, rfl, rfl, by decide, .inr (by decide),
      ⟨' ', _, rfl, by decide⟩⟩
    ⟨ha.1, hb.1⟩ (AllP.nil _)
  simp only [MAst.denote, ha.2.1, hb.2.1] at h
  exact h

/-- `not in` glued to the key name on its right is accepted: `'nt' not  inos_name` is
`'nt' not in os_name` (for every `Ext` whose `is_alphabetic` holds of `n`) -/
theorem example_not_in_glued (x : Ext) (hn : x.alpha 'n' = true) :
    parseMarkers x "'nt' not  inos_name".toList =
      .ok (expression (.string ⟨1⟩ .notContains "nt"), []) := by
  have ha := atom_shape x (l := lit "nt") (o := .notIn [' ', ' ']) (r := osName) (w1 := [' ']) (w2 := [])
    ⟨by decide, by decide, rfl⟩ ⟨hn, by decide, by decide, rfl⟩ osName_lex (by decide) (by decide)
    ⟨fun h => (by cases h), fun _ _ => trivial⟩
  have h := parseMarkers_layout x (.atom [] (atomLOR (lit "nt") [' '] (.notIn [' ', ' ']) [] osName)) []
    ⟨AllP.nil _, ha.2.2.2⟩ ha.1 (AllP.nil _)
  simp only [MAst.denote, ha.2.1] at h
  exact h

/-! ### the pruned layout can fail to be well-formed -/

/-- `'a' == os_name` / `'c' == os_name` -/
private def aEqOs : List Char := atomLOR (lit "a") [' '] eqeq [' '] osName
private def cEqOs : List Char := atomLOR (lit "c") [' '] eqeq [' '] osName

private theorem aEqOs_ok (x : Ext) :
    AtomOK x aEqOs ∧ atomSem x aEqOs = (some (.string ⟨1⟩ .eq "a"), []) ∧ endsQuote aEqOs = false ∧
      AtomHead aEqOs :=
  atom_shape x (l := lit "a") (r := osName) ⟨by decide, by decide, rfl⟩ (eqeq_lex x) osName_lex
    (by decide) (by decide) (glue_sp x _ _ _)

private theorem cEqOs_ok (x : Ext) :
    AtomOK x cEqOs ∧ atomSem x cEqOs = (some (.string ⟨1⟩ .eq "c"), []) ∧ endsQuote cEqOs = false ∧
      AtomHead cEqOs :=
  atom_shape x (l := lit "c") (r := osName) ⟨by decide, by decide, rfl⟩ (eqeq_lex x) osName_lex
    (by decide) (by decide) (glue_sp x _ _ _)

/-- `'a' == os_name and 'a' == 'b'and 'c' == os_name`: the closing quote of the dropped comparison
was the only boundary before the second `and` -/
private def glued : MAst :=
  .and (.and (.atom [] aEqOs) [' '] (.atom [' '] aEqB)) [] (.atom [' '] cEqOs)

example : glued.layout = "'a' == os_name and 'a' == 'b'and 'c' == os_name".toList := by decide

/-- the original is a well-formed layout and parses (the dropped comparison is reported); the pruned
derivation `'a' == os_nameand 'c' == os_name` is NOT a well-formed layout (its `Gaps` fail), and its
text is a parse error (unknown key name `os_nameand`, bytes 7..17) -/
theorem pruned_wf_can_fail (x : Ext) :
    glued.WF ∧ glued.AtomsOK x ∧
    parseMarkers x glued.layout =
      .ok (Tree.and (expression (.string ⟨1⟩ .eq "a")) (expression (.string ⟨1⟩ .eq "c")),
        [.stringStringComparison]) ∧
    glued.prune x = some (.and (.atom [] aEqOs) [] (.atom [' '] cEqOs)) ∧
    ¬ (MAst.and (.atom [] aEqOs) [] (.atom [' '] cEqOs)).WF ∧
    (MAst.and (.atom [] aEqOs) [] (.atom [' '] cEqOs)).layout = "'a' == os_nameand 'c' == os_name".toList ∧
    (match parseMarkers ⟨fun _ => none, fun _ => none, Char.isAlpha⟩
        "'a' == os_nameand 'c' == os_name".toList with
      | .err e => e == ⟨.string, 7, 10⟩
      | _ => false) = true := by
  have ha := aEqOs_ok x
  have hb := aEqB_ok x
  have hc := cEqOs_ok x
  have hwf : glued.WF :=
    ⟨⟨⟨AllP.nil _, ha.2.2.2⟩, ⟨by decide, hb.2.2.2⟩, rfl, rfl, by decide, .inr (by decide),
        ⟨' ', _, rfl, by decide⟩⟩,
      ⟨by decide, hc.2.2.2⟩, rfl, rfl, AllP.nil _, .inl hb.2.2.1, ⟨' ', _, rfl, by decide⟩⟩
  have hat : glued.AtomsOK x := ⟨⟨ha.1, hb.1⟩, hc.1⟩
  refine ⟨hwf, hat, ?_, ?_, ?_, by decide, by decide⟩
  · have h := parseMarkers_layout x glued [] hwf hat (AllP.nil _)
    simp only [glued, MAst.denote, ha.2.1, hb.2.1, hc.2.1, List.append_nil] at h
    exact h
  · simp [glued, MAst.prune, MAst.keptAtom, ha.2.1, hb.2.1, hc.2.1]
  · intro h
    rcases h.2.2.2.2.2.1 with h1 | h1
    · rw [show (MAst.atom [] aEqOs).closed = endsQuote aEqOs from rfl, ha.2.2.1] at h1
      cases h1
    · exact h1 rfl

end Pep508.C17
