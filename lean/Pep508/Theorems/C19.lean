/-
C19 — bare URLs, filesystem paths and archive file names are never taken for package names.

Model: `parseRequirement` (Model/ReqParse.lean) with `looksLikeUnnamed`, `splitScheme`,
`splitExtras`, `expandEnvVars`, `looksLikeArchive` (Model/Url.lean); after the repairs F18
(`a-://h/p`: first segment not a valid name) and F19 (leading whitespace).  `ws` is any run of
whitespace before the input, `env` any process environment, `x` any behaviour of the external
parsers.  Every statement is about the PEP 508 parser (default feature set); the unnamed parser
of the `non-pep508-extensions` feature is not modelled (oracle only, see DESIGN.md).

Shapes:
 (a) a path: the first non-blank char is `/`, `\` or `.`                     → `path_*`
 (b) a scheme URL: `scheme:` with scheme = ALPHA (ALPHA | DIGIT | + | - | .)*  → `scheme_url_*`
 (c) a relative path: name chars, then (chars without blank / `$` / `[`), then `/` or `\` → `relpath_*`
 (d) an archive file name as the whole requirement (optionally extras / marker) → `archive_*`
-/
import Pep508.Proofs.Unnamed
namespace Pep508.C19
open Pep508 Pep508.Cursor

/-- what `looks_like_archive` accepts, stated without the function: `stem.ext` with a pip archive
    extension, or `stem.tar.{bz2,xz,lz,lzma,gz}` -/
theorem archive_rule (f : List Char) : looksLikeArchive f = true ↔ ArchiveName f :=
  looksLikeArchive_iff f

/-- `split_scheme` recognises exactly `ALPHA (ALPHA | DIGIT | + | - | .)* ':'` prefixes -/
theorem scheme_rule (scheme rest : List Char) (hne : scheme ≠ [])
    (hfirst : ∀ c, scheme.head? = some c → isAsciiAlpha c = true)
    (hall : ∀ c ∈ scheme, schemeOk c = true) :
    splitScheme (scheme ++ ':' :: rest) = some (scheme, (rest.reverse.dropWhile schemeCtl).reverse) :=
  splitScheme_spec scheme rest hne hfirst hall

/-- (a) paths: rejected with the dedicated kind; the span is the token -/
theorem path_unsupported (env : ProcEnv) (x : Ext) (ws : List Char) (c : Char) (s : List Char)
    (hws : ∀ ch ∈ ws, isWs ch = true) (hc : isPathStart c = true) :
    (parseRequirement env x (ws ++ c :: s)).fin =
      .err ⟨.unsupported, strLen ws, strLen (token (c :: s))⟩ :=
  path_unsupported_lead env x ws c s hws hc

theorem path_never_accepted (env : ProcEnv) (x : Ext) (ws : List Char) (c : Char) (s : List Char)
    (hws : ∀ ch ∈ ws, isWs ch = true) (hc : isPathStart c = true) :
    ∀ r, (parseRequirement env x (ws ++ c :: s)).fin ≠ .ok r :=
  path_never_accepted_lead env x ws c s hws hc

/-- (b) every scheme URL — any scheme in the `split_scheme` sense, anything after the colon
    (extras, marker, `${VAR}`, blanks …): the dedicated kind, a span that ends with the token -/
theorem scheme_url_unsupported (env : ProcEnv) (x : Ext) (ws scheme tail : List Char)
    (hws : ∀ ch ∈ ws, isWs ch = true) (hne : scheme ≠ [])
    (hfirst : ∀ c, scheme.head? = some c → isAsciiAlpha c = true)
    (hall : ∀ c ∈ scheme, schemeOk c = true) :
    ∃ e : PErr, (parseRequirement env x (ws ++ scheme ++ ':' :: tail)).fin = .err e ∧
      e.kind = .unsupported ∧ (e.start = 0 ∨ e.start = strLen ws) ∧
      e.start + e.len = strLen ws + strLen (token (scheme ++ ':' :: tail)) :=
  scheme_url_unsupported_all env x ws scheme tail hws hne hfirst hall

theorem scheme_url_never_accepted (env : ProcEnv) (x : Ext) (ws scheme tail : List Char)
    (hws : ∀ ch ∈ ws, isWs ch = true) (hne : scheme ≠ [])
    (hfirst : ∀ c, scheme.head? = some c → isAsciiAlpha c = true)
    (hall : ∀ c ∈ scheme, schemeOk c = true) :
    ∀ r, (parseRequirement env x (ws ++ scheme ++ ':' :: tail)).fin ≠ .ok r :=
  scheme_url_never_accepted_all env x ws scheme tail hws hne hfirst hall

/-- (c) relative paths `name… / …`, whether or not the first segment is a valid name (F18) -/
theorem relpath_unsupported (env : ProcEnv) (x : Ext) (ws name mid tail : List Char) (sep : Char)
    (hws : ∀ ch ∈ ws, isWs ch = true)
    (hne : name ≠ [])
    (hfirst : ∀ ch, name.head? = some ch → isAsciiAlnum ch = true)
    (hall : ∀ ch ∈ name, isNameChar ch = true)
    (hsep : isPathSep sep = true)
    (hmid : ∀ ch ∈ mid, isWs ch = false ∧ ch ≠ '$' ∧ ch ≠ '[')
    (hmid0 : ∀ ch, mid.head? = some ch → isNameChar ch = false ∧ isKindStart ch = false) :
    (parseRequirement env x (ws ++ name ++ mid ++ sep :: tail)).fin =
      .err (nameSpan ws name (name ++ mid ++ sep :: tail)) ∧
    (nameSpan ws name (name ++ mid ++ sep :: tail)).kind = .unsupported :=
  ⟨relpath_unsupported_lead env x ws name mid tail sep hws hne hfirst hall hsep hmid hmid0,
   nameSpan_kind _ _ _⟩

theorem relpath_never_accepted (env : ProcEnv) (x : Ext) (ws name mid tail : List Char) (sep : Char)
    (hws : ∀ ch ∈ ws, isWs ch = true)
    (hne : name ≠ [])
    (hfirst : ∀ ch, name.head? = some ch → isAsciiAlnum ch = true)
    (hall : ∀ ch ∈ name, isNameChar ch = true)
    (hsep : isPathSep sep = true)
    (hmid : ∀ ch ∈ mid, isWs ch = false ∧ ch ≠ '$' ∧ ch ≠ '[')
    (hmid0 : ∀ ch, mid.head? = some ch → isNameChar ch = false ∧ isKindStart ch = false) :
    ∀ r, (parseRequirement env x (ws ++ name ++ mid ++ sep :: tail)).fin ≠ .ok r :=
  relpath_never_accepted_lead env x ws name mid tail sep hws hne hfirst hall hsep hmid hmid0

/-- (d) an archive file name as the whole requirement, followed by nothing, blanks or a marker:
    never `requests-2-26-0-tar-gz` -/
theorem archive_name_unsupported (env : ProcEnv) (x : Ext) (ws name rest : List Char)
    (hws : ∀ ch ∈ ws, isWs ch = true)
    (hne : name ≠ [])
    (hfirst : ∀ ch, name.head? = some ch → isAsciiAlnum ch = true)
    (hall : ∀ ch ∈ name, isNameChar ch = true)
    (harch : looksLikeArchive name = true)
    (hend : ∀ ch, (rest.dropWhile isWs).head? = some ch → ch = ';') :
    (parseRequirement env x (ws ++ name ++ rest)).fin = .err ⟨.unsupported, 0, 0⟩ :=
  archive_name_unsupported_lead' env x ws name rest hws hne hfirst hall harch hend

/-- (d) … followed by an extras list (and then nothing, blanks or a marker) -/
theorem archive_name_extras_unsupported (env : ProcEnv) (x : Ext) (ws name rest : List Char)
    (hws : ∀ ch ∈ ws, isWs ch = true)
    (hne : name ≠ [])
    (hfirst : ∀ ch, name.head? = some ch → isAsciiAlnum ch = true)
    (hall : ∀ ch ∈ name, isNameChar ch = true)
    (harch : looksLikeArchive name = true)
    (hrest : ∀ ch, rest.head? = some ch → isNameChar ch = false)
    (extras : List (List Nat)) (c2 : Cursor)
    (hex : parseExtras (⟨ws ++ name ++ rest, rest, strLen ws + strLen name⟩ : Cursor).eatWhitespace =
      .ok (extras, c2))
    (hend : ∀ ch, (c2.rest.dropWhile isWs).head? = some ch → ch = ';') :
    (parseRequirement env x (ws ++ name ++ rest)).fin = .err ⟨.unsupported, 0, 0⟩ :=
  archive_name_unsupported_extras_lead env x ws name rest hws hne hfirst hall
    (archive_last_alnum harch) harch hrest extras c2 hex hend

theorem archive_name_never_accepted (env : ProcEnv) (x : Ext) (ws name rest : List Char)
    (hws : ∀ ch ∈ ws, isWs ch = true)
    (hne : name ≠ [])
    (hfirst : ∀ ch, name.head? = some ch → isAsciiAlnum ch = true)
    (hall : ∀ ch ∈ name, isNameChar ch = true)
    (harch : looksLikeArchive name = true)
    (hend : ∀ ch, (rest.dropWhile isWs).head? = some ch → ch = ';') :
    ∀ r, (parseRequirement env x (ws ++ name ++ rest)).fin ≠ .ok r :=
  archive_name_never_accepted_lead env x ws name rest hws hne hfirst hall harch hend

/-- the former boundary case (F18): a scheme whose name part is not a valid name -/
theorem scheme_not_a_name (env : ProcEnv) (x : Ext) :
    splitScheme ['a', '-', ':', 'b'] = some (['a', '-'], ['b']) ∧
    unnamedVerdict env (token ['a', '-', ':', 'b']) = true ∧
    (parseRequirement env x ['a', '-', ':', 'b']).fin = .err ⟨.unsupported, 0, 4⟩ :=
  scheme_trailing_sep_unsupported env x

/-- the span convention with leading whitespace depends on the path that raises the error
    (kind stage: from 0; `parse_name`: from the name) — both end with the token -/
theorem span_conventions (env : ProcEnv) (x : Ext) :
    (parseRequirement env x [' ', 'a', ':', 'b']).fin = .err ⟨.unsupported, 0, 4⟩ ∧
    (parseRequirement env x [' ', 'a', '-', ':', 'b']).fin = .err ⟨.unsupported, 1, 4⟩ :=
  lead_span_differs env x

end Pep508.C19
