/-
C12 (second part) — `simplify_python_versions` is canonical on the range.

`simplify(m, R)` depends only on what `m` does INSIDE `R` (`simplify_congr`), hence
`simplify(complexify(m, R), R) = simplify(m, R)` and `simplify` is idempotent — as identities of
diagrams, for every NON-EMPTY `R`.  In a dense order without end points "non-empty" is exactly the
model's `Ivl.valid` test (`nonempty_iff_valid`).  For an empty / inverted `R` the model (like the
Rust code) answers FALSE at a `python_full_version` node but returns a marker that does not
mention `python_full_version` unchanged, so the congruence FAILS there (`simplify_congr_empty_false`,
`simplify_complexify_empty_false`); idempotence still holds (`simplify_idem_all`).

The key semantic fact is what the simplified diagram does OUTSIDE `R` (`simplify_eval_below`,
`simplify_eval_above`): below `R` it takes the value `m` has on an initial piece of `R`, above `R`
the value `m` has on a final piece of `R` (other variables unchanged).
-/
import Pep508.Proofs.SimplifyCanon
import Pep508.Theorems.C12
set_option linter.unusedSectionVars false
namespace Pep508.C12
open Pep508
variable {νr νb α : Type}
variable [LT α] [LE α] [Std.IsLinearOrder α] [Std.LawfulOrderLT α] [DecidableLT α] [DecidableEq α]
variable [LT νr] [LE νr] [Std.IsLinearOrder νr] [Std.LawfulOrderLT νr] [DecidableLT νr] [DecidableEq νr]
variable [LT νb] [LE νb] [Std.IsLinearOrder νb] [Std.LawfulOrderLT νb] [DecidableLT νb] [DecidableEq νb]

/-- in a dense order without end points the model's validity test is exactly non-emptiness -/
theorem nonempty_iff_valid [DenseUnbounded α] [Inhabited α] (lo hi : Bnd α) :
    (∃ x, (Ivl.mk lo hi).mem x = true) ↔ (Ivl.mk lo hi).valid = true :=
  ⟨fun ⟨x, hx⟩ => Ivl.valid_of_mem _ x hx, Ivl.exists_mem_of_valid _⟩

/-- **below the range**: in an environment whose `python_full_version` lies below `R`, the
    simplified marker has the value `m` takes on an initial piece `{x ∈ R | x ≤ a}` of `R` -/
theorem simplify_eval_below [DenseUnbounded α] [Inhabited α] (pv : νr) (lo hi : Bnd α)
    (hv : (Ivl.mk lo hi).valid = true) (m : Tree νr νb α) (hm : m.wf = true)
    (ρ : Env νr νb α) (hout : lo.loOk (ρ.rv pv) = false) :
    ∃ a, (Ivl.mk lo hi).mem a = true ∧ ∀ x, (Ivl.mk lo hi).mem x = true → ¬ a < x →
      (m.simplifyPy pv lo hi).eval ρ = m.eval (ρ.setR pv x) :=
  simplify_witness_low pv lo hi hv m hm ρ hout

/-- **above the range**: symmetric, on a final piece `{x ∈ R | a ≤ x}` of `R` -/
theorem simplify_eval_above [DenseUnbounded α] [Inhabited α] (pv : νr) (lo hi : Bnd α)
    (hv : (Ivl.mk lo hi).valid = true) (m : Tree νr νb α) (hm : m.wf = true)
    (ρ : Env νr νb α) (hout : hi.hiOk (ρ.rv pv) = false) :
    ∃ a, (Ivl.mk lo hi).mem a = true ∧ ∀ x, (Ivl.mk lo hi).mem x = true → ¬ x < a →
      (m.simplifyPy pv lo hi).eval ρ = m.eval (ρ.setR pv x) :=
  simplify_witness_high pv lo hi hv m hm ρ hout

/-- **(T1)** markers that agree inside a non-empty `R` simplify to the SAME marker -/
theorem simplify_congr [DenseUnbounded α] [Inhabited α] (pv : νr) (lo hi : Bnd α)
    (hv : (Ivl.mk lo hi).valid = true)
    (m₁ m₂ : Tree νr νb α) (h₁ : m₁.wf = true) (h₂ : m₂.wf = true)
    (hag : ∀ ρ : Env νr νb α, (Ivl.mk lo hi).mem (ρ.rv pv) = true → m₁.eval ρ = m₂.eval ρ) :
    m₁.simplifyPy pv lo hi = m₂.simplifyPy pv lo hi :=
  simplifyPy_congr pv lo hi hv m₁ m₂ h₁ h₂ hag

/-- (T1) with the non-emptiness hypothesis stated as a point of `R` -/
theorem simplify_congr_of_mem [DenseUnbounded α] [Inhabited α] (pv : νr) (lo hi : Bnd α)
    (hne : ∃ x, (Ivl.mk lo hi).mem x = true)
    (m₁ m₂ : Tree νr νb α) (h₁ : m₁.wf = true) (h₂ : m₂.wf = true)
    (hag : ∀ ρ : Env νr νb α, (Ivl.mk lo hi).mem (ρ.rv pv) = true → m₁.eval ρ = m₂.eval ρ) :
    m₁.simplifyPy pv lo hi = m₂.simplifyPy pv lo hi :=
  simplify_congr pv lo hi ((nonempty_iff_valid lo hi).mp hne) m₁ m₂ h₁ h₂ hag

/-- the converse of (T1), for every pair of bounds: equal simplifications ⇒ agreement inside `R` -/
theorem agree_of_simplify_eq (pv : νr) (lo hi : Bnd α)
    (m₁ m₂ : Tree νr νb α) (h₁ : m₁.wf = true) (h₂ : m₂.wf = true)
    (h : m₁.simplifyPy pv lo hi = m₂.simplifyPy pv lo hi)
    (ρ : Env νr νb α) (hin : (Ivl.mk lo hi).mem (ρ.rv pv) = true) : m₁.eval ρ = m₂.eval ρ := by
  rw [← eval_simplifyPy pv lo hi m₁ h₁ ρ hin, ← eval_simplifyPy pv lo hi m₂ h₂ ρ hin, h]

/-- (T1) as an equivalence: for non-empty `R`, same simplification ⇔ same function on `R` -/
theorem simplify_eq_iff [DenseUnbounded α] [Inhabited α] (pv : νr) (lo hi : Bnd α)
    (hv : (Ivl.mk lo hi).valid = true)
    (m₁ m₂ : Tree νr νb α) (h₁ : m₁.wf = true) (h₂ : m₂.wf = true) :
    m₁.simplifyPy pv lo hi = m₂.simplifyPy pv lo hi ↔
      ∀ ρ : Env νr νb α, (Ivl.mk lo hi).mem (ρ.rv pv) = true → m₁.eval ρ = m₂.eval ρ :=
  ⟨fun h ρ hin => agree_of_simplify_eq pv lo hi m₁ m₂ h₁ h₂ h ρ hin,
    simplify_congr pv lo hi hv m₁ m₂ h₁ h₂⟩

/-- **(T2)** `simplify(complexify(m, R), R) == simplify(m, R)` for non-empty `R` -/
theorem simplify_complexify [DenseUnbounded α] [Inhabited α] (pv : νr) (lo hi : Bnd α)
    (hv : (Ivl.mk lo hi).valid = true) (m : Tree νr νb α) (hm : m.wf = true) :
    (m.complexifyPy pv lo hi).simplifyPy pv lo hi = m.simplifyPy pv lo hi :=
  simplifyPy_complexifyPy pv lo hi hv m hm

/-- **(T4)** `simplify` is idempotent, for non-empty `R` … -/
theorem simplify_idem [DenseUnbounded α] [Inhabited α] (pv : νr) (lo hi : Bnd α)
    (hv : (Ivl.mk lo hi).valid = true) (m : Tree νr νb α) (hm : m.wf = true) :
    (m.simplifyPy pv lo hi).simplifyPy pv lo hi = m.simplifyPy pv lo hi :=
  simplifyPy_idem pv lo hi hv m hm

/-- … and in fact for every pair of bounds (unbounded, empty and inverted included) -/
theorem simplify_idem_all [DenseUnbounded α] [Inhabited α] (pv : νr) (lo hi : Bnd α)
    (m : Tree νr νb α) (hm : m.wf = true) :
    (m.simplifyPy pv lo hi).simplifyPy pv lo hi = m.simplifyPy pv lo hi :=
  simplifyPy_idem_all pv lo hi m hm

/-! ### (T3) the empty / inverted range, exactly as the model has it

None of these needs density. -/

/-- a `python_full_version` node becomes FALSE -/
theorem simplify_empty_pv_node (pv : νr) (lo hi : Bnd α) (hv : (Ivl.mk lo hi).valid = false)
    (es : Edges νr νb α) : (Tree.rng pv es).simplifyPy pv lo hi = .leaf false :=
  simplifyPy_pv_invalid pv lo hi hv es

/-- a marker that does not mention `python_full_version` is returned unchanged — for EVERY pair
    of bounds, in particular for an empty one -/
theorem simplify_not_mentions (pv : νr) (lo hi : Bnd α) (m : Tree νr νb α) (hm : m.wf = true)
    (hfree : m.mentionsR pv = false) : m.simplifyPy pv lo hi = m :=
  simplifyPy_of_not_mentions pv lo hi _ m (Nat.lt_succ_self _) hm hfree

/-- for an empty range the result never mentions `python_full_version` -/
theorem simplify_empty_not_mentions (pv : νr) (lo hi : Bnd α) (hv : (Ivl.mk lo hi).valid = false)
    (m : Tree νr νb α) : (m.simplifyPy pv lo hi).mentionsR pv = false :=
  not_mentions_simplifyPy_invalid pv lo hi hv _ m (Nat.lt_succ_self _)

/-- idempotence for an empty range (no order assumption beyond linearity) -/
theorem simplify_idem_empty (pv : νr) (lo hi : Bnd α) (hv : (Ivl.mk lo hi).valid = false)
    (m : Tree νr νb α) (hm : m.wf = true) :
    (m.simplifyPy pv lo hi).simplifyPy pv lo hi = m.simplifyPy pv lo hi :=
  simplifyPy_idem_invalid pv lo hi hv m hm

/-- every pair of markers agrees inside an empty range … -/
theorem agree_on_empty (pv : νr) (lo hi : Bnd α) (hv : (Ivl.mk lo hi).valid = false)
    (m₁ m₂ : Tree νr νb α) (ρ : Env νr νb α) (hin : (Ivl.mk lo hi).mem (ρ.rv pv) = true) :
    m₁.eval ρ = m₂.eval ρ := by
  rw [Ivl.mem_of_not_valid _ _ (by simp [hv])] at hin
  exact absurd hin (by simp)

/-- … so **(T1) is FALSE for every empty / inverted range**: TRUE and FALSE agree inside it, are
    well-formed, and keep their different simplifications -/
theorem simplify_congr_empty_false (pv : νr) (lo hi : Bnd α) (hv : (Ivl.mk lo hi).valid = false) :
    ∃ m₁ m₂ : Tree νr νb α, m₁.wf = true ∧ m₂.wf = true ∧
      (∀ ρ : Env νr νb α, (Ivl.mk lo hi).mem (ρ.rv pv) = true → m₁.eval ρ = m₂.eval ρ) ∧
      m₁.simplifyPy pv lo hi ≠ m₂.simplifyPy pv lo hi :=
  ⟨.leaf true, .leaf false, rfl, rfl, agree_on_empty pv lo hi hv _ _, by simp [Tree.simplifyPy]⟩

/-- more generally any two DIFFERENT well-formed markers without `python_full_version` are a
    counterexample; what remains of (T1) on such markers is the trivial statement -/
theorem simplify_congr_empty_partial (pv : νr) (lo hi : Bnd α)
    (m₁ m₂ : Tree νr νb α) (h₁ : m₁.wf = true) (h₂ : m₂.wf = true)
    (f₁ : m₁.mentionsR pv = false) (f₂ : m₂.mentionsR pv = false) :
    m₁.simplifyPy pv lo hi = m₂.simplifyPy pv lo hi ↔ m₁ = m₂ := by
  rw [simplify_not_mentions pv lo hi m₁ h₁ f₁, simplify_not_mentions pv lo hi m₂ h₂ f₂]

/-- **(T2) is FALSE for every empty / inverted range**: `complexify(TRUE, ∅) = FALSE`, which
    simplifies to FALSE, while `simplify(TRUE, ∅) = TRUE` -/
theorem simplify_complexify_empty_false (pv : νr) (lo hi : Bnd α)
    (hv : (Ivl.mk lo hi).valid = false) :
    ((Tree.leaf true : Tree νr νb α).complexifyPy pv lo hi).simplifyPy pv lo hi = .leaf false ∧
      (Tree.leaf true : Tree νr νb α).simplifyPy pv lo hi = .leaf true := by
  have c1 : ¬ (lo = .unb ∧ hi = .unb) := by
    rintro ⟨rfl, rfl⟩; simp [Ivl.valid] at hv
  simp [Tree.complexifyPy, Tree.simplifyPy, c1, hv]

/-! ### non-vacuity, and why density is assumed -/
section Examples

/-- `v0 >= 3 and b1` over the rationals (`C02.exB` with rational values; variable 0 plays
    `python_full_version`) -/
def exBq : Tree Nat Nat Rat :=
  .rng 0 (.cons ⟨.unb, .excl 3⟩ (.leaf false)
    (.cons ⟨.incl 3, .unb⟩ (.bool 1 (.leaf true) (.leaf false)) .nil))
/-- `b1` -/
def exOnlyB : Tree Nat Nat Rat := .bool 1 (.leaf true) (.leaf false)

/-- the two markers agree inside `R = [4, +∞)` -/
theorem exBq_agree : ∀ ρ : Env Nat Nat Rat, (Ivl.mk (.incl 4) .unb).mem (ρ.rv 0) = true →
    exBq.eval ρ = exOnlyB.eval ρ := by
  intro ρ h
  simp only [exBq, exOnlyB, Tree.eval, Edges.eval, Ivl.mem, Bnd.loOk, Bnd.hiOk] at *
  generalize ρ.rv 0 = a at *
  have : ¬ a < 3 := by grind
  simp [this]

/-- (T1) instantiated: all hypotheses hold for concrete well-formed markers … -/
example : exBq.simplifyPy 0 (.incl 4) .unb = exOnlyB.simplifyPy 0 (.incl 4) .unb :=
  simplify_congr 0 (.incl 4) .unb (by decide) exBq exOnlyB (by decide) (by decide) exBq_agree
/-- … and the common value is what the model computes -/
example : exBq.simplifyPy 0 (.incl 4) .unb = exOnlyB ∧
    exOnlyB.simplifyPy 0 (.incl 4) .unb = exOnlyB := by decide

/-- (T2) and (T4) instantiated -/
example : (exBq.complexifyPy 0 (.incl 4) .unb).simplifyPy 0 (.incl 4) .unb =
    exBq.simplifyPy 0 (.incl 4) .unb :=
  simplify_complexify 0 (.incl 4) .unb (by decide) exBq (by decide)
example : (exBq.complexifyPy 0 (.incl 4) .unb) ≠ exBq := by decide
example : (exBq.simplifyPy 0 (.incl 2) (.excl 9)).simplifyPy 0 (.incl 2) (.excl 9) =
    exBq.simplifyPy 0 (.incl 2) (.excl 9) :=
  simplify_idem 0 (.incl 2) (.excl 9) (by decide) exBq (by decide)

/-- `python_full_version` (variable 1 here) BELOW another range variable and beside a boolean:
    `(v0 < 2 and v1 < 5) or (v0 >= 2 and b1)` -/
def exD : Tree Nat Nat Rat :=
  .rng 0 (.cons ⟨.unb, .excl 2⟩
      (.rng 1 (.cons ⟨.unb, .excl 5⟩ (.leaf true) (.cons ⟨.incl 5, .unb⟩ (.leaf false) .nil)))
    (.cons ⟨.incl 2, .unb⟩ (.bool 1 (.leaf true) (.leaf false)) .nil))
/-- `v0 >= 2 and b1` -/
def exD' : Tree Nat Nat Rat :=
  .rng 0 (.cons ⟨.unb, .excl 2⟩ (.leaf false)
    (.cons ⟨.incl 2, .unb⟩ (.bool 1 (.leaf true) (.leaf false)) .nil))

theorem exD_agree : ∀ ρ : Env Nat Nat Rat, (Ivl.mk (.incl 6) (.excl 8)).mem (ρ.rv 1) = true →
    exD.eval ρ = exD'.eval ρ := by
  intro ρ h
  simp only [exD, exD', Tree.eval, Edges.eval, Ivl.mem, Bnd.loOk, Bnd.hiOk] at *
  generalize ρ.rv 1 = a at *
  have : ¬ a < 5 := by grind
  simp [this]

example : exD.simplifyPy 1 (.incl 6) (.excl 8) = exD'.simplifyPy 1 (.incl 6) (.excl 8) :=
  simplify_congr 1 (.incl 6) (.excl 8) (by decide) exD exD' (by decide) (by decide) exD_agree
example : exD.simplifyPy 1 (.incl 6) (.excl 8) = exD' := by decide

/-- (T3) on a concrete inverted range `[7, 2)`: the `python_full_version` node of `exBq` becomes
    FALSE, the marker `b1` stays, although both agree (vacuously) inside the range -/
example : (Ivl.mk (Bnd.incl (7 : Rat)) (.excl 2)).valid = false := by decide
example : exBq.simplifyPy 0 (.incl 7) (.excl 2) = .leaf false ∧
    exOnlyB.simplifyPy 0 (.incl 7) (.excl 2) = exOnlyB := by decide
example : ∀ ρ : Env Nat Nat Rat, (Ivl.mk (.incl 7) (.excl 2)).mem (ρ.rv 0) = true →
    exBq.eval ρ = exOnlyB.eval ρ := agree_on_empty 0 _ _ (by decide) _ _

/-- **why density is assumed** (as for canonicity, C03): over the integers `R = (3, 5]` is
    `{4, 5}`; the marker `v0 < 4` is FALSE on it, exactly like the FALSE terminal, but its first
    edge meets `R` in the valid-but-empty segment `(3, 4)` and is kept by `simplify` -/
def intM : Tree Nat Nat Int :=
  .rng 0 (.cons ⟨.unb, .excl 4⟩ (.leaf true) (.cons ⟨.incl 4, .unb⟩ (.leaf false) .nil))

example : intM.wf = true ∧ (Ivl.mk (Bnd.excl (3 : Int)) (.incl 5)).valid = true := by decide
example : ∀ ρ : Env Nat Nat Int, (Ivl.mk (.excl 3) (.incl 5)).mem (ρ.rv 0) = true →
    intM.eval ρ = (Tree.leaf false : Tree Nat Nat Int).eval ρ := by
  intro ρ h
  simp only [intM, Tree.eval, Edges.eval, Ivl.mem, Bnd.loOk, Bnd.hiOk] at *
  generalize ρ.rv 0 = a at *
  have : ¬ a < 4 := by simp at h; omega
  simp [this]
example : intM.simplifyPy 0 (.excl 3) (.incl 5) ≠
    (Tree.leaf false : Tree Nat Nat Int).simplifyPy 0 (.excl 3) (.incl 5) := by decide

end Examples

end Pep508.C12

section
open Pep508.C12
#print axioms simplify_eval_below
#print axioms simplify_eval_above
#print axioms simplify_congr
#print axioms simplify_congr_of_mem
#print axioms simplify_eq_iff
#print axioms simplify_complexify
#print axioms simplify_idem
#print axioms simplify_idem_all
#print axioms simplify_empty_pv_node
#print axioms simplify_not_mentions
#print axioms simplify_empty_not_mentions
#print axioms simplify_idem_empty
#print axioms simplify_congr_empty_false
#print axioms simplify_congr_empty_partial
#print axioms simplify_complexify_empty_false
#print axioms nonempty_iff_valid
end
