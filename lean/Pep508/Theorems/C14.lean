/-
C14 — results do not depend on what the process did before.

`IState` (Model/Interner.lean) is the process-global interner as a state machine: the
append-only arena (= unique table) and the AND memo cache; `andI` is the memoised conjunction
on ids with complemented edges; `den s id` reads an id back as the `kind()`-view diagram.
`IState.Inv` holds for the empty interner and is preserved by every step.  Under it:
 * ids are canonical: equal diagrams ⇔ equal ids, whatever the insertion order (`ids_canonical`);
 * old ids keep their meaning when the arena grows (`old_ids_stable`);
 * `andI` denotes `Tree.and` of the operands' diagrams whatever the arena and cache already
   contain — a cache hit returns what recomputation would (`and_refines`, `cache_transparent`),
   and in any later state of the same interner the very same id comes back (`same_id_later`);
 * two interners with different histories give results with the same diagram (`history_independent`).
Every observable that is a function of diagrams (==, cmp: C16, evaluate: C02/C01, DNF: C05) is
therefore independent of the history.  The displayed *spelling* of equal versions is not a
function of the diagram in the implementation: known finding K1.
-/
import Pep508.Proofs.InternerRefine
namespace Pep508.C14
open Pep508
variable {νr νb α : Type}
variable [LT α] [DecidableLT α] [DecidableEq α]
variable [LT νr] [DecidableLT νr] [DecidableEq νr] [LT νb] [DecidableLT νb] [DecidableEq νb]

theorem inv_init : (IState.empty : IState νr νb α).Inv := IState.Inv_empty

/-- hash-consing + complement normalisation make ids canonical -/
theorem ids_canonical {s : IState νr νb α} (hs : s.Inv) {a b : Id} (va : Id.Valid s a) (vb : Id.Valid s b) :
    den s a = den s b ↔ a = b := den_eq_iff hs.wf va vb

theorem old_ids_stable {s s' : IState νr νb α} (hs : s.Inv) (hle : s.Le s') {id : Id} (hv : Id.Valid s id) :
    den s' id = den s id := den_mono hs.wf hle hv

/-- the id-level `and` (memo cache, hash-consing, complemented edges) refines `Tree.and` -/
theorem and_refines (n : Nat) (s : IState νr νb α) (x y : Id) (hs : s.Inv)
    (vx : Id.Valid s x) (vy : Id.Valid s y) (hn : (den s x).size + (den s y).size < n) :
    (andI n s x y).1.Inv ∧ s.Le (andI n s x y).1 ∧ Id.Valid (andI n s x y).1 (andI n s x y).2 ∧
      den (andI n s x y).1 (andI n s x y).2 = Tree.and (den s x) (den s y) :=
  andI_refines n s x y hs vx vy hn

theorem or_refines (n : Nat) (s : IState νr νb α) (x y : Id) (hs : s.Inv)
    (vx : Id.Valid s x) (vy : Id.Valid s y) (hn : (den s x).size + (den s y).size < n) :
    (orI n s x y).1.Inv ∧ s.Le (orI n s x y).1 ∧ Id.Valid (orI n s x y).1 (orI n s x y).2 ∧
      den (orI n s x y).1 (orI n s x y).2 = Tree.or (den s x) (den s y) :=
  orI_refines n s x y hs vx vy hn

theorem create_node_refines {s : IState νr νb α} (hs : s.Inv) (n : INode νr νb α)
    (hv : ∀ c ∈ n.children, Id.Valid s c) :
    (createNodeI s n).1.Inv ∧ s.Le (createNodeI s n).1 ∧ Id.Valid (createNodeI s n).1 (createNodeI s n).2 ∧
      den (createNodeI s n).1 (createNodeI s n).2 = createNodeT s n := createNodeI_spec hs n hv

theorem cache_transparent (n : Nat) (s : IState νr νb α) (x y : Id) (hs : s.Inv)
    (vx : Id.Valid s x) (vy : Id.Valid s y) (hn : (den s x).size + (den s y).size < n) :
    den (andI n s x y).1 (andI n s x y).2 =
      den (andI n { s with cache := [] } x y).1 (andI n { s with cache := [] } x y).2 :=
  andI_cache_irrelevant n s x y hs vx vy hn

theorem same_id_later (n m : Nat) (s s' : IState νr νb α) (x y : Id) (hs : s.Inv) (hs' : s'.Inv)
    (vx : Id.Valid s x) (vy : Id.Valid s y) (hle : (andI n s x y).1.Le s')
    (hn : (den s x).size + (den s y).size < n) (hm : (den s x).size + (den s y).size < m) :
    (andI m s' x y).2 = (andI n s x y).2 := andI_same_id n m s s' x y hs hs' vx vy hle hn hm

theorem history_independent (n₁ n₂ : Nat) (s₁ s₂ : IState νr νb α) (x₁ y₁ x₂ y₂ : Id)
    (h₁ : s₁.Inv) (h₂ : s₂.Inv)
    (vx₁ : Id.Valid s₁ x₁) (vy₁ : Id.Valid s₁ y₁) (vx₂ : Id.Valid s₂ x₂) (vy₂ : Id.Valid s₂ y₂)
    (hx : den s₁ x₁ = den s₂ x₂) (hy : den s₁ y₁ = den s₂ y₂)
    (hn₁ : (den s₁ x₁).size + (den s₁ y₁).size < n₁) (hn₂ : (den s₂ x₂).size + (den s₂ y₂).size < n₂) :
    den (andI n₁ s₁ x₁ y₁).1 (andI n₁ s₁ x₁ y₁).2 = den (andI n₂ s₂ x₂ y₂).1 (andI n₂ s₂ x₂ y₂).2 :=
  andI_history_independent n₁ n₂ s₁ s₂ x₁ y₁ x₂ y₂ h₁ h₂ vx₁ vy₁ vx₂ vy₂ hx hy hn₁ hn₂

/-- end to end: load two well-formed diagrams into ANY interner state and conjoin the ids -/
theorem and_after_any_history (n : Nat) (s : IState νr νb α) (hs : s.Inv) (t u : Tree νr νb α)
    (ht : t.wf = true) (hu : u.wf = true) (hn : t.size + u.size < n) :
    let s1 := (internTree s t).1
    let x := (internTree s t).2
    let s2 := (internTree s1 u).1
    let y := (internTree s1 u).2
    den (andI n s2 x y).1 (andI n s2 x y).2 = Tree.and t u := andI_internTree n s hs t u ht hu hn

end Pep508.C14
