/-
C09 — Package and extra names: validation and normalization per PEP 503/508/685.

Model: `Pep508.Model.Names` (byte-level transcription of `src/normalize/mod.rs`).
Spec:  `ValidName`, `normSpec` (in `Pep508.Proofs.Names`, written from the PEPs).
All statements quantify over *every* byte string (`List Nat`), no length bound.
-/
import Pep508.Proofs.Names
namespace Pep508.Names.C09

/-- accepted ⇔ non-empty ASCII letters/digits/`-_.`, alphanumeric at both ends -/
theorem accept_iff_valid (s : List Nat) : (validateRef s).isSome = true ↔ ValidName s :=
  validateRef_isSome_iff s

/-- the stored form is lower-case with every separator run replaced by one `-` -/
theorem stored_is_normal_form (s r : List Nat) (h : validateRef s = some r) : r = normSpec s :=
  validateRef_eq_normSpec s r h

/-- owned constructor (fast path `is_normalized` + slow path) ≡ borrowed constructor / `FromStr` /
    `Deserialize` (all three of which call `validate_and_normalize_ref`) -/
theorem owned_eq_borrowed (s : List Nat) : validateOwned s = validateRef s :=
  validateOwned_eq_validateRef s

/-- normalization is idempotent: the stored form is accepted and is its own stored form -/
theorem idempotent (s r : List Nat) (h : validateRef s = some r) : validateRef r = some r :=
  validateRef_idem s r h

/-- two accepted names have equal stored forms iff their declarative normal forms agree
    (`Eq` on `PackageName`/`ExtraName` is equality of the stored string) -/
theorem eq_iff_norm_eq (s t r u : List Nat) (hs : validateRef s = some r) (ht : validateRef t = some u) :
    r = u ↔ normSpec s = normSpec t := by
  rw [validateRef_eq_normSpec s r hs, validateRef_eq_normSpec t u ht]

/-- `as_dist_info_name` = stored form with `-` ↦ `_` -/
theorem dist_info (s : List Nat) : distInfo s = s.map (fun c => if c == 45 then 95 else c) :=
  distInfo_eq_map s

/-- the empty name is rejected by both constructors (the F1 repair) -/
theorem empty_rejected : validateRef [] = none ∧ validateOwned [] = none := by decide

/-! non-vacuity: a concrete mixed-case name with separator runs meets the hypotheses -/
example : validateRef [70, 111, 95, 46, 45, 66, 97, 114] = some [102, 111, 45, 98, 97, 114] := by decide
example : ValidName [70, 111, 95, 46, 45, 66, 97, 114] := by
  refine ⟨by simp, ?_, ?_, ?_⟩ <;> decide
example : validateRef [102, 111, 45] = none := by decide

end Pep508.Names.C09
