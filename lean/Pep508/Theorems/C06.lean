/-
C06 — parsing is total: no panic on any input, errors always renderable.

Proved here for the marker parsers (`MarkerTree::from_str / parse_reporter`,
`MarkerExpression::from_str / parse_reporter`): for EVERY list of Unicode scalar values, every
behaviour of the external pep440 parsers (`Ext` is universally quantified) the model — in
which every Rust panic site is an explicit value — returns a result or an error whose span
starts on a char boundary inside the input or at its end; the default fuel (standing for the
stack) always suffices, so no nesting bound is even needed in the model.
The requirement / extras / unnamed parsers are tied by correspondence and the hostile-input
oracle (see level_note); name validation totality is C09.
-/
import Pep508.Proofs.ParseFuel
import Pep508.Proofs.ReqTotal
import Pep508.Proofs.ErrDisplay
namespace Pep508.C06
open Pep508

/-- `MarkerTree::parse_reporter` never panics (no slice off a char boundary, no `unreachable!`,
    and the recursion is bounded by the input length) -/
theorem marker_tree_never_panics (x : Ext) (input : List Char) :
    ∀ s, parseMarkers x input ≠ .panic s := parseMarkers_never_panics x input

/-- … and an error's span starts on a char boundary, within the input or at its end -/
theorem marker_tree_err_span (x : Ext) (input : List Char) (e : PErr)
    (h : parseMarkers x input = .err e) : Boundary input e.start ∧ e.start ≤ strLen input :=
  ⟨parseMarkers_err_boundary x input e h, parseMarkers_err_le x input e h⟩

/-- so `&input[e.start..]` (what `Display` slices first) exists -/
theorem marker_tree_err_sliceable (x : Ext) (input : List Char) (e : PErr)
    (h : parseMarkers x input = .err e) : ∃ r, dropBytes input e.start = some r :=
  parseMarkers_err_sliceable x input e h

theorem marker_expression_never_panics (x : Ext) (input : List Char) :
    ∀ s, parseExpression x input ≠ .panic s := parseExpression_never_panics x input

theorem marker_expression_err_span (x : Ext) (input : List Char) (e : PErr)
    (h : parseExpression x input = .err e) : Boundary input e.start ∧ e.start ≤ strLen input :=
  ⟨parseExpression_err_boundary x input e h, parseExpression_err_le x input e h⟩

/-- the cursor primitive behind it: what `take_while` / `peek_while` return can always be sliced -/
theorem take_while_sliceable (c : Cursor) (p : Char → Bool) (h : c.Inv) :
    ∃ taken, sliceBytes c.input (c.takeWhile p).1.1 (c.takeWhile p).1.2 = some taken := by
  obtain ⟨taken, _, h2, _⟩ := Cursor.takeWhile_slice h p
  exact ⟨taken, h2⟩

/-! ### the requirement parser (`Requirement::from_str / parse / parse_reporter`, `Extras::parse`) -/

/-- the requirement parser never reaches a panic site (`expect` on names / extras, slices,
    `unreachable!`), for every input, every environment and every behaviour of the external parsers -/
theorem requirement_never_panics (env : ProcEnv) (x : Ext) (input : List Char) :
    ∀ s, (parseRequirement env x input).fin ≠ .panic s := parseRequirement_no_panic env x input

/-- every error it returns starts on a char boundary of the input -/
theorem requirement_err_span (env : ProcEnv) (x : Ext) (input : List Char) (e : PErr)
    (h : (parseRequirement env x input).fin = .err e) : Boundary input e.start :=
  parseRequirement_err_boundary env x input e h

/-- every slice handed to the external specifier / URL parsers exists, with the recorded span
    (an external failure is reported with that span) -/
theorem requirement_external_calls (env : ProcEnv) (x : Ext) (input : List Char) :
    CallsOK input (parseRequirement env x input).calls := parseRequirement_calls env x input

/-- the ambiguous-URL-end alternative (F17): its span starts on a boundary whenever the URL
    text ends in a one-byte character (which is what "the parsed URL ends with `;`/`#`" implies) -/
theorem requirement_url_ends_span (env : ProcEnv) (x : Ext) (input : List Char)
    (alts : List (Char × PErr)) (other : PErr)
    (hs : (parseRequirement env x input).fin = .urlEnds alts other)
    (ch : Char) (e : PErr) (hm : (ch, e) ∈ alts) (t : List Char) (s l : Nat)
    (hc : ExtCall.url t s l ∈ (parseRequirement env x input).calls)
    (lastc : Char) (hlast : t.getLast? = some lastc) (h1 : utf8Len lastc = 1) :
    Boundary input e.start ∧ Boundary input other.start :=
  ⟨parseRequirement_urlEnds_alts env x input alts other hs ch e hm t s l hc lastc hlast h1,
   parseRequirement_urlEnds_other env x input alts other hs⟩

/-- the same for the ambiguity check made when a marker follows the URL (F20) -/
theorem requirement_url_ends_ok_span (env : ProcEnv) (x : Ext) (input : List Char)
    (alts : List (Char × PErr)) (r : ReqOk)
    (hs : (parseRequirement env x input).fin = .urlEndsOk alts r)
    (ch : Char) (e : PErr) (hm : (ch, e) ∈ alts) (t : List Char) (s l : Nat)
    (hc : ExtCall.url t s l ∈ (parseRequirement env x input).calls)
    (lastc : Char) (hlast : t.getLast? = some lastc) (h1 : utf8Len lastc = 1) :
    Boundary input e.start :=
  parseRequirement_urlEndsOk_alts env x input alts r hs ch e hm t s l hc lastc hlast h1

/-! ### every returned error can be formatted (`Display for Pep508Error`)

`errDisplaySlices` models the two slices `Display` takes (`none` = the slice panics).  It succeeds for
every span whose START is a char boundary, whatever the length (several call sites store a char count
or a constant there) — and every error of the parsers has such a start. -/

theorem display_never_panics (input : List Char) (start len : Nat) (hs : Boundary input start) :
    ∃ r, errDisplaySlices input start len = some r := errDisplaySlices_isSome input start len hs

theorem marker_tree_err_renderable (x : Ext) (input : List Char) (e : PErr)
    (h : parseMarkers x input = .err e) : ∃ r, errDisplaySlices input e.start e.len = some r :=
  errDisplaySlices_isSome _ _ _ (parseMarkers_err_boundary x input e h)

theorem marker_expression_err_renderable (x : Ext) (input : List Char) (e : PErr)
    (h : parseExpression x input = .err e) : ∃ r, errDisplaySlices input e.start e.len = some r :=
  errDisplaySlices_isSome _ _ _ (parseExpression_err_boundary x input e h)

theorem requirement_err_renderable (env : ProcEnv) (x : Ext) (input : List Char) (e : PErr)
    (h : (parseRequirement env x input).fin = .err e) : ∃ r, errDisplaySlices input e.start e.len = some r :=
  errDisplaySlices_isSome _ _ _ (parseRequirement_err_boundary env x input e h)

/-- what is underlined is a piece of the input starting at the span start, never longer than the span -/
theorem display_underlines_within (input : List Char) (start len : Nat) (pre u : List Char)
    (h : errDisplaySlices input start len = some (pre, some u)) :
    ∃ rest, input = pre ++ u ++ rest ∧ strLen pre = start ∧ strLen u ≤ len :=
  errDisplaySlices_spec input start len pre u h

example : errDisplaySlices ['a', '語', 'b'] 1 2 = some (['a'], some []) := by decide
example : errDisplaySlices ['a', '語', 'b'] 1 3 = some (['a'], some ['語']) := by decide
example : errDisplaySlices ['a', '語', 'b'] 5 7 = some (['a', '語', 'b'], none) := by decide
example : errDisplaySlices ['a', '語', 'b'] 2 1 = none := by decide   -- a start inside a char WOULD panic

theorem extras_never_panic {c : Cursor} (h : c.Inv) : ∀ s, parseExtras c ≠ .panic s :=
  (parseExtras_total h).2.2

theorem name_never_panics (env : ProcEnv) {c : Cursor} (h : c.Inv) : ∀ s, parseName env c ≠ .panic s :=
  (parseName_total env h).2.2

/-- non-vacuity / the F2 witness on the model: multi-byte text after an expression is an
    error at byte 13 (a boundary), not a panic -/
example : (match parseMarkers ⟨fun _ => none, fun _ => none, fun _ => false⟩
      ['o', 's', '_', 'n', 'a', 'm', 'e', '=', '=', '\'', 'a', '\'', ' ', 'é'] with
    | .err e => e.start == 13
    | _ => false) = true := by decide

end Pep508.C06
