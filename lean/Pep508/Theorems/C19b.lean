/-
C19 (second part) — the unnamed-requirement parser of the `non-pep508-extensions` feature
(`Model/Unnamed.lean`, after the repair F22: the "URL ends with `;` / `#`" error points at the last
byte of the scanned token, not at the byte before the cursor).

 (U1) totality: no panic; every error starts on a char boundary of the input; the span of the recorded
      external call starts on a char boundary and slices a non-empty text out of the input.
      The pre-F22 formula (`cursor position − 1`) was NOT always a char boundary: `old_requirement_end`.
 (U2) the end of the token, declaratively (`unnamedEnd`, with bracket depth), and the scan computes it.
 (U3) acceptance: `ws url[e1,e2,…] ; marker` is accepted (`url` non-empty, without whitespace and brackets;
      it MAY end with `;` / `#`); given text = `url` verbatim, extras and marker recovered; the recorded
      call spans `url[e1,…]` and carries the classified expansion of `url`.
 (U4) the printed form is that text, hence re-parses to its components; a URL text ending in a bracket
      group is ambiguous (`a[b]`).
-/
import Pep508.Proofs.UnnamedTotal
namespace Pep508.C19
open Pep508 Pep508.Cursor

/-! ### (U1) totality -/

/-- the unnamed parser never panics -/
theorem unnamed_no_panic (env : ProcEnv) (x : Ext) (input : List Char) :
    ∀ s, (parseUnnamed env x input).fin ≠ .panic s := by
  intro s hs
  have g := (parseUnnamed_good env x input).2
  rw [hs] at g
  exact g

/-- every error span starts on a char boundary of the input (this includes the re-based errors of the
extras list, and the "URL ends with `;` / `#`" error `⟨requirementEnd - 1, 1⟩`) -/
theorem unnamed_err_boundary (env : ProcEnv) (x : Ext) (input : List Char) (e : PErr) :
    (parseUnnamed env x input).fin = .err e → Boundary input e.start := by
  intro hs
  have g := (parseUnnamed_good env x input).2
  rw [hs] at g
  exact g

/-- the span `(start, len)` of the recorded external call starts on a char boundary and slices a
non-empty text out of the input -/
theorem unnamed_call_span (env : ProcEnv) (x : Ext) (input : List Char) (call : UCall) :
    (parseUnnamed env x input).call = some call →
      Boundary input call.start ∧ ∃ tok, sliceBytes input call.start call.len = some tok ∧ tok ≠ [] :=
  (parseUnnamed_good env x input).1 call

/-- `parse_unnamed_url` alone: no panic, errors (including the re-based extras errors
`start + |url| + er.start`) on char boundaries, the cursor only advances, the call's span is the scanned
token `tok`, the reported end is the end of the token, and the given text is the token or the token
minus its trailing bracket group -/
theorem unnamed_url_total (env : ProcEnv) {c : Cursor} (h : c.Inv) :
    match parseUnnamedUrl env c with
    | .ok ((call, given, _, reqEnd), c') => Adv c c' ∧ Boundary c.input call.start ∧
        reqEnd = call.start + call.len ∧ call.start = c.eatWhitespace.pos ∧
        ∃ tok, sliceBytes c.input call.start call.len = some tok ∧ tok ≠ [] ∧
          (given = tok ∨ ∃ a, tok = given ++ '[' :: (a ++ [']']))
    | .err e => Boundary c.input e.start
    | .panic _ => False := by
  have g := parseUnnamedUrl_ok env h
  cases hr : parseUnnamedUrl env c with
  | ok v => obtain ⟨⟨call, given, ex, re⟩, c'⟩ := v; rw [hr] at g; exact g
  | err e => rw [hr] at g; exact g
  | panic s => rw [hr] at g; exact g

/-- `a;[b]<U+3000>#x` : the URL text `a;`, an extras list, an ideographic space (3 bytes), a comment -/
def f22Input : List Char := ['a', ';', '[', 'b', ']', Char.ofNat 0x3000, '#', 'x']

/-- The pre-F22 formula was wrong.  On `a;[b]<U+3000>#x` the scan stops AFTER the 3-byte blank: the cursor
is at byte 8 while the token `a;[b]` ends at byte 5.  The old error span `⟨cursor − 1, 1⟩ = ⟨7, 1⟩` starts
inside the blank: not a char boundary (slicing the input there panics in Rust).  The repaired parser
reports `⟨4, 1⟩`, the last byte of the token. -/
theorem old_requirement_end (env : ProcEnv) (x : Ext) :
    (∃ call extras c, parseUnnamedUrl env (Cursor.new f22Input).eatWhitespace =
        .ok ((call, ['a', ';'], extras, 5), c) ∧ c.pos = 8) ∧
    ¬ Boundary f22Input (8 - 1) ∧ sliceBytes f22Input (8 - 1) 1 = none ∧
    (parseUnnamed env x f22Input).fin = .err ⟨.string, 4, 1⟩ := by
  have hws : isWs (Char.ofNat 0x3000) = true := by decide
  have hM : TokenSep [Char.ofNat 0x3000, '#', 'x'] := by
    refine .inr ⟨_, _, rfl, .inr ?_⟩
    decide
  have hp := parseUnnamedUrl_printed env [] ['a', ';'] [['b']] [Char.ofNat 0x3000, '#', 'x']
    (by simp) (by simp) (by decide) (by intro e h; simp at h; subst h; exact nameOk_wf (by decide)) hM
    (by intro _ h; simp at h)
  have hI : [] ++ ((['a', ';'] ++ extrasTxt [['b']]) ++ [Char.ofNat 0x3000, '#', 'x']) = f22Input := by decide
  rw [hI] at hp
  have hl : strLen [] + strLen (['a', ';'] ++ extrasTxt [['b']]) = 5 := by decide
  have hl2 : strLen [] + strLen (['a', ';'] ++ extrasTxt [['b']]) +
      strLen (List.take 1 [Char.ofNat 0x3000, '#', 'x']) = 8 := by decide
  rw [hl2, hl] at hp
  refine ⟨⟨_, _, _, hp, rfl⟩, ?_, by decide, ?_⟩
  · intro hb
    obtain ⟨r, hr⟩ := hb.dropBytes_isSome
    have : dropBytes f22Input (8 - 1) = none := by decide
    rw [this] at hr
    exact absurd hr (by simp)
  · rw [parseUnnamed_eq, hp]
    rfl

/-! ### (U2) where the token ends -/

/-- the scanning loop of `parse_unnamed_url` computes `unnamedEnd` -/
theorem scan_is_rule (fuel : Nat) (c : Cursor) (len depth : Nat) (hf : c.rest.length < fuel) :
    unnamedScan fuel c len depth =
      (len + strLen (unnamedEnd depth c.rest).1,
       urlAfter c ((unnamedEnd depth c.rest).1.length + (unnamedEnd depth c.rest).2.length)) :=
  unnamedScan_eq fuel c len depth hf

/-- … and `parse_unnamed_url` is: skip whitespace, take the token `unnamedEnd 0`, preprocess it
(`unnamedPre`: split the extras off, parse them, expand, classify) -/
theorem parse_unnamed_url_is_rule (env : ProcEnv) {c : Cursor} (h : c.Inv) :
    parseUnnamedUrl env c =
      unnamedPre env c.eatWhitespace.pos (unnamedEnd 0 c.eatWhitespace.rest).1
        (urlAfter c.eatWhitespace ((unnamedEnd 0 c.eatWhitespace.rest).1.length +
          (unnamedEnd 0 c.eatWhitespace.rest).2.length)) :=
  parseUnnamedUrl_eq env h

/-- `unnamedEnd` is the first stop event: `s = tok ++ sep ++ r`; no stop event (end of input, line break,
top-level whitespace before `;` / `#` / end) at any position inside `tok`; no glue event (top-level
`;` / `#` followed by whitespace) before the last char of `tok`; and the token ends because the input
ends, or its last char is a glue event (nothing more consumed), or a stop event `w` follows (consumed)
and the last char is no glue event -/
theorem rule_is_first_stop (d : Nat) (s : List Char) :
    ∃ r, s = (unnamedEnd d s).1 ++ ((unnamedEnd d s).2 ++ r) ∧
      (∀ a b, (unnamedEnd d s).1 = a ++ b → b ≠ [] →
        stopAtD (depthAfter d a) (b ++ ((unnamedEnd d s).2 ++ r)) = false) ∧
      (∀ a b, (unnamedEnd d s).1 = a ++ b → 2 ≤ b.length →
        gluedAtD (depthAfter d a) (b ++ ((unnamedEnd d s).2 ++ r)) = false) ∧
      (((unnamedEnd d s).2 = [] ∧ r = []) ∨
       ((unnamedEnd d s).2 = [] ∧ ∃ a g, (unnamedEnd d s).1 = a ++ [g] ∧
          gluedAtD (depthAfter d a) (g :: r) = true) ∨
       (∃ w, (unnamedEnd d s).2 = [w] ∧ stopAtD (depthAfter d (unnamedEnd d s).1) (w :: r) = true ∧
          ∀ a g, (unnamedEnd d s).1 = a ++ [g] → gluedAtD (depthAfter d a) (g :: w :: r) = false)) :=
  unnamedEnd_spec d s

/-- (a) a token without whitespace, followed by the end of the input or — brackets balanced, not ending
in `;` / `#` — by whitespace before `;` / `#` / the end: the scan returns exactly that token -/
theorem token_no_ws (t M : List Char) (ht : ∀ c ∈ t, isWs c = false)
    (hM : M = [] ∨ ∃ w r, M = w :: r ∧ stopWsL w r = true ∧ depthAfter 0 t = 0 ∧
      t.getLast? ≠ some ';' ∧ t.getLast? ≠ some '#') :
    unnamedEnd 0 (t ++ M) = (t, M.take 1) :=
  unnamedEnd_no_ws t M ht hM

/-- (a′) more generally: no line break in `t`, and whitespace only inside brackets -/
theorem token_bracketed_ws (d : Nat) (t M : List Char) (ht : bracketedWs d t = true)
    (hM : M = [] ∨ ∃ w r, M = w :: r ∧ (isNl w = true ∨ (depthAfter d t = 0 ∧ stopWsL w r = true)))
    (hlast : M ≠ [] → depthAfter d t = 0 → t.getLast? ≠ some ';' ∧ t.getLast? ≠ some '#') :
    unnamedEnd d (t ++ M) = (t, M.take 1) :=
  unnamedEnd_token d t M ht hM hlast

/-- (b) whitespace (not a line break) inside a bracket group never ends the token, whatever follows -/
theorem ws_in_brackets (d : Nat) (w : Char) (r : List Char) (hw : isWs w = true) (hnl : isNl w = false) :
    unnamedEnd (d + 1) (w :: r) = (w :: (unnamedEnd (d + 1) r).1, (unnamedEnd (d + 1) r).2) :=
  unnamedEnd_ws_in_brackets d w r hw hnl

/-- `a[b ;c] ; m`: the blank before the first `;` is inside the brackets; the token is `a[b ;c]` -/
example : unnamedEnd 0 "a[b ;c] ; m".toList = ("a[b ;c]".toList, [' ']) := by decide

/-- `a] ;c`: an unmatched `]` leaves the depth at 0 -/
example : unnamedEnd 0 "a] ;c".toList = ("a]".toList, [' ']) := by decide

/-! ### (U3) acceptance and recovery -/

/-- `ws url[e1,…]`: accepted; the given text is `url` verbatim, the extras are recovered; the call spans
`url[e1,…]` and carries the classified expansion of `url` (`unnamedCall`, see `call_*` below) -/
theorem accepts (env : ProcEnv) (x : Ext) (ws u : List Char) (es : List (List Char))
    (hws : ∀ c ∈ ws, isWs c = true) (hne : u ≠ [])
    (hu : ∀ c ∈ u, isWs c = false ∧ c ≠ '[' ∧ c ≠ ']') (hes : ∀ e ∈ es, NameWF e) :
    parseUnnamed env x (ws ++ ((u ++ extrasTxt es) ++ markerTxt none)) =
      ⟨some (unnamedCall env u (strLen ws) (strLen (u ++ extrasTxt es))),
        .ok ⟨u, es.map normName, .leaf true, []⟩⟩ :=
  parseUnnamed_printed env x ws u es hws hne hu hes

/-- `ws url[e1,…] ; m`: if the marker parser started on `m` returns `st`, accepted with `st`'s tree and
warnings.  (`url` may even end with `;` / `#`; see `url_semicolon_marker`.) -/
theorem accepts_marker (env : ProcEnv) (x : Ext) (ws u : List Char) (es : List (List Char)) (m : List Char)
    (hws : ∀ c ∈ ws, isWs c = true) (hne : u ≠ [])
    (hu : ∀ c ∈ u, isWs c = false ∧ c ≠ '[' ∧ c ≠ ']') (hes : ∀ e ∈ es, NameWF e)
    (st : PState)
    (hst : parseMarkersCursor x (4 * (ws ++ ((u ++ extrasTxt es) ++ markerTxt (some m))).length + 16)
      ⟨ws ++ ((u ++ extrasTxt es) ++ markerTxt (some m)), m, strLen ws + strLen (u ++ extrasTxt es) + 3⟩ = .ok st) :
    parseUnnamed env x (ws ++ ((u ++ extrasTxt es) ++ markerTxt (some m))) =
      ⟨some (unnamedCall env u (strLen ws) (strLen (u ++ extrasTxt es))),
        .ok ⟨u, es.map normName, st.tree.getD (.leaf true), st.warns⟩⟩ :=
  parseUnnamed_printed_marker env x ws u es m hws hne hu hes st hst

/-- unlike the named parser (`C08.url_semicolon_marker_rejected`: `a @ u; ; m` is an "ambiguous URL end"
error), the unnamed parser accepts a URL text that ends with `;` and is followed by a marker: `u; ; m`
gives the URL text `u;` -/
theorem url_semicolon_marker (env : ProcEnv) (x : Ext) (m : List Char) (st : PState)
    (hst : parseMarkersCursor x (4 * ("u; ; ".toList ++ m).length + 16) ⟨"u; ; ".toList ++ m, m, 5⟩ = .ok st) :
    parseUnnamed env x ("u; ; ".toList ++ m) =
      ⟨some ⟨.path, "u;".toList, 0, 2⟩, .ok ⟨"u;".toList, [], st.tree.getD (.leaf true), st.warns⟩⟩ :=
  accepts_marker env x [] "u;".toList [] m (by simp) (by simp) (by decide) (by simp) st hst

/-- … but with a comment instead of a marker it is rejected, the error pointing at the `;` -/
theorem url_semicolon_comment (env : ProcEnv) (x : Ext) :
    (parseUnnamed env x "u; #c".toList).fin = .err ⟨.string, 1, 1⟩ := rfl

/-- an external version parser that knows nothing (the marker below compares strings) -/
def x0 : Ext := ⟨fun _ => none, fun _ => none, fun _ => false⟩

/-- non-vacuity: ` ./p/a.whl[x,y] ; os_name=='a'` is accepted by the model, URL text `./p/a.whl` -/
example (env : ProcEnv) :
    ∃ r, parseUnnamed env x0 " ./p/a.whl[x,y] ; os_name=='a'".toList =
      ⟨some ⟨.path, "./p/a.whl".toList, 1, 14⟩, .ok r⟩ ∧ r.given = "./p/a.whl".toList ∧
      r.extras = [[120], [121]] := by
  have hm : ∃ st, parseMarkersCursor x0 (4 * " ./p/a.whl[x,y] ; os_name=='a'".toList.length + 16)
      ⟨" ./p/a.whl[x,y] ; os_name=='a'".toList, "os_name=='a'".toList, 18⟩ = .ok st := by
    have h : (match parseMarkersCursor x0 (4 * " ./p/a.whl[x,y] ; os_name=='a'".toList.length + 16)
        ⟨" ./p/a.whl[x,y] ; os_name=='a'".toList, "os_name=='a'".toList, 18⟩ with
        | .ok _ => true | _ => false) = true := by decide
    cases hr : parseMarkersCursor x0 (4 * " ./p/a.whl[x,y] ; os_name=='a'".toList.length + 16)
        ⟨" ./p/a.whl[x,y] ; os_name=='a'".toList, "os_name=='a'".toList, 18⟩ with
    | ok st => exact ⟨st, rfl⟩
    | err e => rw [hr] at h; simp at h
    | panic s => rw [hr] at h; simp at h
  obtain ⟨st, hst⟩ := hm
  have h := accepts_marker env x0 " ".toList "./p/a.whl".toList ["x".toList, "y".toList] "os_name=='a'".toList
    (by decide) (by simp) (by decide)
    (by intro e h; simp at h; rcases h with rfl | rfl <;> exact nameOk_wf (by decide)) st hst
  have he : ["x".toList, "y".toList].map normName = [[120], [121]] := by decide
  exact ⟨_, h, rfl, he⟩

/-- the recorded call, by cases of `split_scheme` on the expanded text -/
theorem call_no_scheme (env : ProcEnv) (u : List Char) (s l : Nat)
    (h : splitScheme (expandEnvVars env u) = none) :
    unnamedCall env u s l = ⟨.path, expandEnvVars env u, s, l⟩ := unnamedCall_none env u s l h

theorem call_file (env : ProcEnv) (u path : List Char) (s l : Nat)
    (h : splitScheme (expandEnvVars env u) = some ("file".toList, path)) :
    unnamedCall env u s l = ⟨.file, path, s, l⟩ := unnamedCall_file env u path s l h

theorem call_known_scheme (env : ProcEnv) (u scheme path : List Char) (s l : Nat)
    (h : splitScheme (expandEnvVars env u) = some (scheme, path)) (hf : scheme ≠ "file".toList)
    (hk : knownScheme scheme = true) :
    unnamedCall env u s l = ⟨.url, expandEnvVars env u, s, l⟩ := unnamedCall_known env u scheme path s l h hf hk

theorem call_unknown_scheme (env : ProcEnv) (u scheme path : List Char) (s l : Nat)
    (h : splitScheme (expandEnvVars env u) = some (scheme, path)) (hk : knownScheme scheme = false) :
    unnamedCall env u s l = ⟨.path, expandEnvVars env u, s, l⟩ := unnamedCall_unknown env u scheme path s l h hk

/-- in every case the span is the one given -/
theorem call_span (env : ProcEnv) (u : List Char) (s l : Nat) :
    (unnamedCall env u s l).start = s ∧ (unnamedCall env u s l).len = l := unnamedCall_span env u s l

/-! ### (U4) the printed form and its round trip -/

/-- `Display`: `url[e1,e2,…] ; marker` (extras non-empty texts) -/
theorem printed_form (u : List Char) (es : List (List Char)) (m : Option (List Char))
    (hes : ∀ e ∈ es, e ≠ []) :
    showUnnamed u es m = (u ++ extrasTxt es) ++ markerTxt m :=
  showUnnamed_eq u es m hes

/-- the model's `Display` skips EMPTY extras at the front (it tests the accumulator, not the index); extras
are validated names, never empty, so this is outside the domain -/
example : showUnnamed "a".toList [[], "b".toList] none = "a[b]".toList := by decide

/-- round trip without a marker: the printed form re-parses to the same URL text and extras, whenever
the printed URL text is non-empty and contains no whitespace and no bracket -/
theorem roundtrip (env : ProcEnv) (x : Ext) (u : List Char) (es : List (List Char))
    (hne : u ≠ []) (hu : ∀ c ∈ u, isWs c = false ∧ c ≠ '[' ∧ c ≠ ']') (hes : ∀ e ∈ es, NameWF e) :
    parseUnnamed env x (showUnnamed u es none) =
      ⟨some (unnamedCall env u 0 (strLen (u ++ extrasTxt es))),
        .ok ⟨u, es.map normName, .leaf true, []⟩⟩ := by
  rw [printed_form u es none (fun e h => (hes e h).1)]
  have := accepts env x [] u es (by simp) hne hu hes
  simpa using this

/-- round trip with a marker `m` (marker-parser hypothesis as in `C08.roundtrip_marker`) -/
theorem roundtrip_marker (env : ProcEnv) (x : Ext) (u : List Char) (es : List (List Char)) (m : List Char)
    (hne : u ≠ []) (hu : ∀ c ∈ u, isWs c = false ∧ c ≠ '[' ∧ c ≠ ']') (hes : ∀ e ∈ es, NameWF e)
    (st : PState)
    (hst : parseMarkersCursor x (4 * (showUnnamed u es (some m)).length + 16)
      ⟨showUnnamed u es (some m), m, strLen (u ++ extrasTxt es) + 3⟩ = .ok st) :
    parseUnnamed env x (showUnnamed u es (some m)) =
      ⟨some (unnamedCall env u 0 (strLen (u ++ extrasTxt es))),
        .ok ⟨u, es.map normName, st.tree.getD (.leaf true), st.warns⟩⟩ := by
  rw [printed_form u es (some m) (fun e h => (hes e h).1)] at hst ⊢
  have := accepts_marker env x [] u es m (by simp) hne hu hes st (by simpa using hst)
  simpa using this

/-- the cursor of that hypothesis is the position of the marker text in the printed form -/
theorem marker_cursor (u : List Char) (es : List (List Char)) (m : List Char) (hes : ∀ e ∈ es, e ≠ []) :
    Cursor.Inv ⟨showUnnamed u es (some m), m, strLen (u ++ extrasTxt es) + 3⟩ := by
  rw [printed_form u es (some m) hes]
  refine ⟨(u ++ extrasTxt es) ++ [' ', ';', ' '], by simp [markerTxt], ?_⟩
  have h1 : utf8Len ' ' = 1 := by decide
  have h2 : utf8Len ';' = 1 := by decide
  simp only [strLen_append, strLen_cons, strLen_nil, h1, h2]

/-- the bracket restriction is needed: the URL text `a[b]` without extras and the URL text `a` with the
extra `b` print the same; the parser reads the latter -/
theorem bracket_ambiguity (env : ProcEnv) (x : Ext) :
    showUnnamed "a[b]".toList [] none = "a[b]".toList ∧
    showUnnamed "a".toList ["b".toList] none = "a[b]".toList ∧
    parseUnnamed env x "a[b]".toList = ⟨some ⟨.path, "a".toList, 0, 4⟩, .ok ⟨"a".toList, [[98]], .leaf true, []⟩⟩ := by
  refine ⟨by decide, by decide, ?_⟩
  have h := roundtrip env x "a".toList ["b".toList] (by simp) (by decide)
    (by intro e h; simp at h; subst h; exact nameOk_wf (by decide))
  have h1 : showUnnamed "a".toList ["b".toList] none = "a[b]".toList := by decide
  rw [h1] at h
  rw [h]
  have h2 : unnamedCall env "a".toList 0 (strLen ("a".toList ++ extrasTxt ["b".toList])) =
      ⟨.path, "a".toList, 0, 4⟩ := rfl
  have h3 : ["b".toList].map normName = [[98]] := by decide
  rw [h2, h3]

end Pep508.C19
