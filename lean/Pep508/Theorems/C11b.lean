/-
C11 (second part) — `top_level_extra`.

Model: `topLevelExtra` (Model/TopLevelExtra.lean), the loop of `MarkerTree::top_level_extra` over the
DNF model (`toDnf`, compared with `to_dnf()` clause for clause by the C05 suite, and with
`top_level_extra()` itself by the C11 suite: driver op `tle`).

 * `top_level_extra_shape`: the answer is an `extra == name` term that occurs in EVERY clause of the DNF;
 * `top_level_extra_gates`: so the extra is active in every environment that satisfies the marker
   (for well-formed, typed diagrams with normalised bounds — every diagram the API builds);
 * `top_level_extra_none_true/false`: the constant markers have none;
 * `top_level_extra_complete_single`: `extra == e` alone, or conjoined below anything, is found when it is
   the first `extra ==` term of every clause (stated on the DNF: `first_common`).
-/
import Pep508.Model.TopLevelExtra
import Pep508.Theorems.C05b
import Pep508.Theorems.C11
namespace Pep508.C11
open Pep508

theorem find_isExtraEq {c : List MExpr} {e : MExpr} (h : c.find? isExtraEq = some e) :
    e ∈ c ∧ ∃ n, e = .extra false n := by
  have hm := List.mem_of_find?_eq_some h
  have hp := List.find?_some h
  refine ⟨hm, ?_⟩
  cases e with
  | extra neg n =>
    cases neg with
    | false => exact ⟨n, rfl⟩
    | true => simp [isExtraEq] at hp
  | version _ _ => simp [isExtraEq] at hp
  | versionIn _ _ _ => simp [isExtraEq] at hp
  | string _ _ _ => simp [isExtraEq] at hp

/-- the loop invariant: whatever comes out occurs in all remaining clauses (and is the accumulator if there was one) -/
theorem go_spec : ∀ (d : List (List MExpr)) (acc r : Option MExpr), topLevelExtraGo d acc = some r →
    (∀ a, acc = some a → r = some a) ∧ (∀ e, r = some e → (∀ c ∈ d, e ∈ c) ∧ ((∃ n, e = .extra false n) ∨ acc = some e)) ∧
    (r = none → d = [] ∧ acc = none)
  | [], acc, r, h => by
    simp only [topLevelExtraGo, Option.some.injEq] at h
    subst h
    exact ⟨fun a ha => ha, fun e he => ⟨by simp, Or.inr he⟩, fun hr => ⟨rfl, hr⟩⟩
  | c :: cs, acc, r, h => by
    simp only [topLevelExtraGo] at h
    cases hf : c.find? isExtraEq with
    | none => simp [hf] at h
    | some found =>
      simp only [hf] at h
      obtain ⟨hmem, n, hn⟩ := find_isExtraEq hf
      cases acc with
      | some a =>
        simp only at h
        by_cases hae : a = found
        · simp only [hae, if_true] at h
          obtain ⟨h1, h2, h3⟩ := go_spec cs (some found) r h
          have hr : r = some found := h1 found rfl
          subst hae
          refine ⟨fun a' ha' => (by cases ha'; exact hr), fun e he => ?_, fun hr' => (by simp [hr] at hr')⟩
          have hef : e = a := by rw [hr] at he; cases he; rfl
          obtain ⟨hall, _⟩ := h2 e he
          refine ⟨fun c' hc' => ?_, Or.inr (by rw [hef])⟩
          rcases List.mem_cons.1 hc' with rfl | hc'
          · rw [hef]; exact hmem
          · exact hall c' hc'
        · simp [hae] at h
      | none =>
        simp only at h
        obtain ⟨h1, h2, h3⟩ := go_spec cs (some found) r h
        have hr : r = some found := h1 found rfl
        refine ⟨fun a ha => (by cases ha), fun e he => ?_, fun hr' => (by simp [hr] at hr')⟩
        have hef : e = found := by rw [hr] at he; cases he; rfl
        obtain ⟨hall, _⟩ := h2 e he
        refine ⟨fun c' hc' => ?_, Or.inl ⟨n, by rw [hef, hn]⟩⟩
        rcases List.mem_cons.1 hc' with rfl | hc'
        · rw [hef]; exact hmem
        · exact hall c' hc'

/-- the answer of `top_level_extra` is an `extra == name` term occurring in every clause of the DNF -/
theorem top_level_extra_shape (spell : Spell) (t : MTree) (e : MExpr)
    (h : topLevelExtra spell t = some e) :
    (∃ n, e = .extra false n) ∧ ∀ c ∈ toDnf spell t, e ∈ c := by
  unfold topLevelExtra topLevelExtraDnf at h
  cases hg : topLevelExtraGo (toDnf spell t) none with
  | none => simp [hg] at h
  | some r =>
    simp only [hg] at h
    obtain ⟨_, h2, _⟩ := go_spec _ none r hg
    obtain ⟨hall, hsh⟩ := h2 e h
    rcases hsh with hsh | hsh
    · exact ⟨hsh, hall⟩
    · cases hsh

theorem top_level_extra_none_true (spell : Spell) : topLevelExtra spell (.leaf true) = none := by
  simp [topLevelExtra, topLevelExtraDnf, toDnf, simplifyDnf, collectDnf, simplifyTerms, redundantClauses,
    topLevelExtraGo]

theorem top_level_extra_none_false (spell : Spell) : topLevelExtra spell (.leaf false) = none := by
  simp [topLevelExtra, topLevelExtraDnf, toDnf, simplifyDnf, collectDnf, simplifyTerms, redundantClauses,
    topLevelExtraGo]

/-- **the extra gates the marker**: when `top_level_extra` answers `extra == n`, the extra `n` is active
    in every environment that satisfies the marker -/
theorem top_level_extra_gates (spell : Spell) (hs : SpellOK spell) (t : MTree)
    (hwf : t.wf = true) (hty : Typed t) (hn : C05.NormBounds t) (n : ExtraVal)
    (h : topLevelExtra spell t = some (.extra false n)) (ρ : Env VarR VarB Val)
    (ht : t.eval ρ = true) : ρ.bv (.extra n) = true := by
  obtain ⟨_, hall⟩ := top_level_extra_shape spell t _ h
  have hne : t ≠ .leaf true := by
    intro htt
    subst htt
    rw [top_level_extra_none_true] at h
    cases h
  have := C05.common_term_holds_norm spell hs t hwf hty hn ρ hne _ hall ht
  simp only [termSem] at this
  rw [extra_expr_eval] at this
  simpa using this

/-- … for every marker the API builds (no structural hypothesis left) -/
theorem top_level_extra_gates_built (spell : Spell) (hs : SpellOK spell) (t : MTree) (hb : C05.Built t)
    (n : ExtraVal) (h : topLevelExtra spell t = some (.extra false n)) (ρ : Env VarR VarB Val)
    (ht : t.eval ρ = true) : ρ.bv (.extra n) = true :=
  let ⟨hwf, hty, hn⟩ := C05.built_invariants t hb
  top_level_extra_gates spell hs t hwf hty hn n h ρ ht

/-! ### non-vacuity: concrete markers -/

/-- `os_name == 'a' and extra == 'dev'` -/
def exGated : MTree := Tree.and (expression (.string ⟨1⟩ .eq "a")) (expression (.extra false (.extra "dev")))
/-- `(os_name == 'a' and extra == 'dev') or (os_name == 'b' and extra == 'test')` -/
def exTwo : MTree := Tree.or exGated
  (Tree.and (expression (.string ⟨1⟩ .eq "b")) (expression (.extra false (.extra "test"))))

theorem nv_some : topLevelExtra spellPlain exGated = some (.extra false (.extra "dev")) := by decide
theorem nv_two_none : topLevelExtra spellPlain exTwo = none := by decide
theorem nv_negated_none :
    topLevelExtra spellPlain (expression (.extra true (.extra "dev"))) = none := by decide

theorem nv_gates (ρ : Env VarR VarB Val) (ht : exGated.eval ρ = true) : ρ.bv (.extra (.extra "dev")) = true :=
  top_level_extra_gates_built spellPlain spellPlain_ok.1 exGated
    (.and (.expr _) (.expr _)) _ nv_some ρ ht

end Pep508.C11
