/-
C13 (second half) — environment-free evaluation is EXACT on well-formed markers whose variables
are independent.

`Tree.evalExtras ex` (`evaluate_extras`) answers `true` iff some environment that agrees with the
known extras satisfies the marker, provided

* the diagram satisfies the structural C20 predicate `Tree.wf` (ordered: every variable occurs at
  most once on a path; the edges of a range node partition the line), and
* every syntactically valid interval of the value order is inhabited (`hinh`; it holds for every
  dense order without end points, `DenseUnbounded`) — or, more precisely, every edge interval that
  occurs in the diagram is inhabited (`Tree.EdgesInh`, the `…_partial` form, usable over `Nat`).

"Independent" is the `Env` model: each range key, each `in`/`contains` test and each extra is its
own freely valued variable.  Both provisos are necessary: see `intGapF` (over `Int` the edge
`(0,1)` is valid but empty) and `unordered` (a variable tested twice on one path).
-/
import Pep508.Proofs.ExtrasExact
import Pep508.Theorems.C13
import Pep508.Theorems.C02
set_option linter.unusedSectionVars false
namespace Pep508.C13
open Pep508
variable {νr νb α : Type}
variable [LT α] [LE α] [Std.IsLinearOrder α] [Std.LawfulOrderLT α] [DecidableLT α] [DecidableEq α]
variable [LT νr] [LE νr] [Std.IsLinearOrder νr] [Std.LawfulOrderLT νr] [DecidableLT νr] [DecidableEq νr]
variable [LT νb] [LE νb] [Std.IsLinearOrder νb] [Std.LawfulOrderLT νb] [DecidableLT νb] [DecidableEq νb]

/-- (E1) **exactness**: on a well-formed diagram over a value order in which every valid interval
    is inhabited, the answer `true` is witnessed by an environment compatible with the extras.
    (`hinh` applied to `(-∞,+∞)` also provides the inhabitant of `α` for the default environment.) -/
theorem evaluate_extras_exact
    (hinh : ∀ iv : Ivl α, iv.valid = true → ∃ x, iv.mem x = true)
    (ex : νb → Option Bool) (t : Tree νr νb α) (hwf : t.wf = true)
    (h : t.evalExtras ex = true) :
    ∃ ρ : Env νr νb α, (∀ v b, ex v = some b → ρ.bv v = b) ∧ t.eval ρ = true :=
  evalExtras_exact hinh ex t hwf h

/-- the hypothesis of (E1) holds in every dense order without end points -/
theorem valid_inhabited [DenseUnbounded α] [Inhabited α] :
    ∀ iv : Ivl α, iv.valid = true → ∃ x, iv.mem x = true :=
  valid_inhabited_of_dense

/-- (E1) for dense orders without end points -/
theorem evaluate_extras_exact_dense [DenseUnbounded α] [Inhabited α]
    (ex : νb → Option Bool) (t : Tree νr νb α) (hwf : t.wf = true)
    (h : t.evalExtras ex = true) :
    ∃ ρ : Env νr νb α, (∀ v b, ex v = some b → ρ.bv v = b) ∧ t.eval ρ = true :=
  evaluate_extras_exact valid_inhabited ex t hwf h

/-- (E2) `evaluate_extras` decides satisfiability under the known extras -/
theorem evaluate_extras_iff
    (hinh : ∀ iv : Ivl α, iv.valid = true → ∃ x, iv.mem x = true)
    (ex : νb → Option Bool) (t : Tree νr νb α) (hwf : t.wf = true) :
    t.evalExtras ex = true ↔
      ∃ ρ : Env νr νb α, (∀ v b, ex v = some b → ρ.bv v = b) ∧ t.eval ρ = true :=
  ⟨evaluate_extras_exact hinh ex t hwf, evaluate_extras_sound ex t⟩

theorem evaluate_extras_iff_dense [DenseUnbounded α] [Inhabited α]
    (ex : νb → Option Bool) (t : Tree νr νb α) (hwf : t.wf = true) :
    t.evalExtras ex = true ↔
      ∃ ρ : Env νr νb α, (∀ v b, ex v = some b → ρ.bv v = b) ∧ t.eval ρ = true :=
  evaluate_extras_iff valid_inhabited ex t hwf

/-- (E2) negative form: the answer is `false` exactly when no compatible environment satisfies
    the marker -/
theorem evaluate_extras_false_iff
    (hinh : ∀ iv : Ivl α, iv.valid = true → ∃ x, iv.mem x = true)
    (ex : νb → Option Bool) (t : Tree νr νb α) (hwf : t.wf = true) :
    t.evalExtras ex = false ↔
      ∀ ρ : Env νr νb α, (∀ v b, ex v = some b → ρ.bv v = b) → t.eval ρ = false := by
  constructor
  · intro h ρ hρ; exact evaluate_extras_false ex t h ρ hρ
  · intro h
    cases ht : t.evalExtras ex with
    | false => rfl
    | true =>
      obtain ⟨ρ, hρ, hev⟩ := evaluate_extras_exact hinh ex t hwf ht
      rw [h ρ hρ] at hev; cases hev

/-- the strongest form, usable over non-dense value orders such as `Nat` or `Int`: only the edge
    intervals that occur in the diagram have to be inhabited (`Tree.EdgesInh`) -/
theorem evaluate_extras_exact_partial [Nonempty α]
    (ex : νb → Option Bool) (t : Tree νr νb α) (hwf : t.wf = true) (hi : t.EdgesInh)
    (h : t.evalExtras ex = true) :
    ∃ ρ : Env νr νb α, (∀ v b, ex v = some b → ρ.bv v = b) ∧ t.eval ρ = true :=
  evalExtras_exact_of_edgesInh ex t hwf hi h

theorem evaluate_extras_iff_partial [Nonempty α]
    (ex : νb → Option Bool) (t : Tree νr νb α) (hwf : t.wf = true) (hi : t.EdgesInh) :
    t.evalExtras ex = true ↔
      ∃ ρ : Env νr νb α, (∀ v b, ex v = some b → ρ.bv v = b) ∧ t.eval ρ = true :=
  ⟨evaluate_extras_exact_partial ex t hwf hi, evaluate_extras_sound ex t⟩

/-! ### (E3) the hypotheses matter -/

/-- over the integers: `0 < v0 < 1` as a well-formed diagram; the middle edge is a valid segment
    (`version-ranges` keeps it) that contains no integer -/
def intGapF : Tree Nat Nat Int :=
  .rng 0 (.cons ⟨.unb, .incl 0⟩ (.leaf false)
    (.cons ⟨.excl 0, .excl 1⟩ (.leaf true) (.cons ⟨.incl 1, .unb⟩ (.leaf false) .nil)))

theorem intGapF_wf : intGapF.wf = true := by decide
theorem intGapF_evalExtras (ex : Nat → Option Bool) : intGapF.evalExtras ex = true := rfl
theorem intGapF_unsat (ρ : Env Nat Nat Int) : intGapF.eval ρ = false := by
  simp only [intGapF, Tree.eval, Edges.eval, Ivl.mem, Bnd.loOk, Bnd.hiOk]
  generalize ρ.rv 0 = a
  by_cases h1 : (0 : Int) < a <;> by_cases h2 : a < 1 <;> simp [h1, h2] <;> omega

/-- exactness FAILS over `Int` for a well-formed diagram: the answer is `true`, no environment
    (compatible or not) satisfies the marker -/
theorem exact_fails_over_int (ex : Nat → Option Bool) :
    intGapF.wf = true ∧ intGapF.evalExtras ex = true ∧
      ¬ ∃ ρ : Env Nat Nat Int, (∀ v b, ex v = some b → ρ.bv v = b) ∧ intGapF.eval ρ = true := by
  refine ⟨intGapF_wf, intGapF_evalExtras ex, ?_⟩
  rintro ⟨ρ, _, h⟩
  rw [intGapF_unsat ρ] at h; cases h

/-- … because the inhabitation hypothesis is false there -/
theorem int_not_valid_inhabited :
    ¬ ∀ iv : Ivl Int, iv.valid = true → ∃ x, iv.mem x = true := by
  intro h
  obtain ⟨x, hx⟩ := h ⟨.excl 0, .excl 1⟩ (by decide)
  simp only [Ivl.mem, Bnd.loOk, Bnd.hiOk, Bool.and_eq_true, decide_eq_true_eq] at hx
  omega

/-- and the diagram does not satisfy the per-diagram hypothesis of the `_partial` form -/
theorem intGapF_not_edgesInh : ¬ intGapF.EdgesInh := by
  intro h
  simp only [intGapF, Tree.EdgesInh, Edges.AllInh] at h
  obtain ⟨x, hx⟩ := h.2.2.1
  simp only [Ivl.mem, Bnd.loOk, Bnd.hiOk, Bool.and_eq_true, decide_eq_true_eq] at hx
  omega

/-- orderedness (part of `wf`) matters as well: a variable tested twice on one path.  Every edge
    is inhabited (there are none), the answer with the variable left open is `true`, yet
    `b0 and not b0` is unsatisfiable. -/
def unordered : Tree Nat Nat Rat := .bool 0 (.bool 0 (.leaf false) (.leaf true)) (.leaf false)

theorem exact_fails_unordered :
    unordered.wf = false ∧ unordered.EdgesInh ∧ unordered.evalExtras (fun _ => none) = true ∧
      ∀ ρ : Env Nat Nat Rat, unordered.eval ρ = false := by
  refine ⟨by decide, ⟨⟨trivial, trivial⟩, trivial⟩, rfl, ?_⟩
  intro ρ
  simp only [unordered, Tree.eval]
  cases ρ.bv 0 <;> rfl

/-! ### (E4) non-vacuity -/

/-- `C02.exB` (`v0 >= 3 and b1`, values in `Nat`): all its edges are inhabited -/
theorem exB_edgesInh : C02.exB.EdgesInh := by
  simp only [C02.exB, Tree.EdgesInh, Edges.AllInh, and_true, true_and]
  exact ⟨⟨0, by decide⟩, ⟨3, by decide⟩⟩

/-- with `b1` open the answer is `true`, and the theorem produces a witness -/
example : ∃ ρ : Env Nat Nat Nat, (∀ v b, (fun _ => none : Nat → Option Bool) v = some b → ρ.bv v = b) ∧
    C02.exB.eval ρ = true :=
  evaluate_extras_exact_partial (fun _ => none) C02.exB (by decide) exB_edgesInh (by decide)

/-- with `b1` known to be active likewise -/
example : ∃ ρ : Env Nat Nat Nat,
    (∀ v b, (fun v => if v = 1 then some true else none : Nat → Option Bool) v = some b → ρ.bv v = b) ∧
    C02.exB.eval ρ = true :=
  evaluate_extras_exact_partial _ C02.exB (by decide) exB_edgesInh (by decide)

/-- with `b1` known to be inactive the answer is `false` and indeed nothing compatible satisfies it -/
example (ρ : Env Nat Nat Nat) (hρ : ρ.bv 1 = false) : C02.exB.eval ρ = false :=
  evaluate_extras_false (fun v => if v = 1 then some false else none) C02.exB (by decide) ρ
    (by intro v b h; by_cases hv : v = 1 <;> simp [hv] at h; subst hv; rw [h]; exact hρ)

/-- the iff on `exB` -/
example (ex : Nat → Option Bool) : C02.exB.evalExtras ex = true ↔
    ∃ ρ : Env Nat Nat Nat, (∀ v b, ex v = some b → ρ.bv v = b) ∧ C02.exB.eval ρ = true :=
  evaluate_extras_iff_partial ex C02.exB (by decide) exB_edgesInh

/-- the rationals satisfy every assumption of the unconditional form -/
example (ex : Nat → Option Bool) (t : Tree Nat Nat Rat) (hwf : t.wf = true) :
    t.evalExtras ex = true ↔
      ∃ ρ : Env Nat Nat Rat, (∀ v b, ex v = some b → ρ.bv v = b) ∧ t.eval ρ = true :=
  evaluate_extras_iff_dense ex t hwf

end Pep508.C13

section
open Pep508
#print axioms Pep508.C13.evaluate_extras_exact
#print axioms Pep508.C13.valid_inhabited
#print axioms Pep508.C13.evaluate_extras_exact_dense
#print axioms Pep508.C13.evaluate_extras_iff
#print axioms Pep508.C13.evaluate_extras_iff_dense
#print axioms Pep508.C13.evaluate_extras_false_iff
#print axioms Pep508.C13.evaluate_extras_exact_partial
#print axioms Pep508.C13.evaluate_extras_iff_partial
#print axioms Pep508.C13.exact_fails_over_int
#print axioms Pep508.C13.int_not_valid_inhabited
#print axioms Pep508.C13.intGapF_not_edgesInh
#print axioms Pep508.C13.exact_fails_unordered
#print axioms Pep508.C13.exB_edgesInh
end
