/-
C12 — requires-python simplify / complexify preserve meaning inside the range.

`Tree.complexifyPy` / `Tree.simplifyPy` model `complexify_python_versions` /
`simplify_python_versions` (after F9, F10, F14); `pv` is the `python_full_version` variable,
`(lo, hi)` any pair of bounds — unbounded, included, excluded, empty or inverted.
Panic-freedom: the model's functions are total and the two Rust `unwrap`/`assert!` sites
(`new.first().unwrap()`, "expected at least one non-empty intersection") are exactly
`simplifyEdges … ≠ []` / the kept run being non-empty, proved in `WfUnary.lean`
(`simplifyEdges_ne_nil`, `filter_part`).
-/
import Pep508.Proofs.Unary
import Pep508.Proofs.WfUnary
import Pep508.Proofs.Canon
import Pep508.Theorems.C02
set_option linter.unusedSectionVars false
namespace Pep508.C12
open Pep508
variable {νr νb α : Type}
variable [LT α] [LE α] [Std.IsLinearOrder α] [Std.LawfulOrderLT α] [DecidableLT α] [DecidableEq α]
variable [LT νr] [LE νr] [Std.IsLinearOrder νr] [Std.LawfulOrderLT νr] [DecidableLT νr] [DecidableEq νr]
variable [LT νb] [LE νb] [Std.IsLinearOrder νb] [Std.LawfulOrderLT νb] [DecidableLT νb] [DecidableEq νb]

/-- the marker `python_full_version in R` for `R = (lo, hi)`: TRUE for the unbounded pair,
    FALSE for an empty / inverted range -/
def pyRangeMarker (pv : νr) (lo hi : Bnd α) : Tree νr νb α :=
  if lo = .unb ∧ hi = .unb then .leaf true
  else if (Ivl.mk lo hi).valid then rangeNode pv [⟨lo, hi⟩] else .leaf false

theorem eval_pyRangeMarker (pv : νr) (lo hi : Bnd α) (ρ : Env νr νb α) :
    (pyRangeMarker pv lo hi : Tree νr νb α).eval ρ = (Ivl.mk lo hi).mem (ρ.rv pv) := by
  unfold pyRangeMarker
  split
  · rename_i h; obtain ⟨h1, h2⟩ := h; subst h1 h2; simp [Tree.eval, Ivl.mem, Bnd.loOk, Bnd.hiOk]
  · split
    · exact eval_pyNode ρ pv lo hi
    · rename_i h; simp [Tree.eval, Ivl.mem_of_not_valid _ _ (by simpa using h)]

theorem wf_pyRangeMarker (pv : νr) (lo hi : Bnd α) : (pyRangeMarker pv lo hi : Tree νr νb α).wf = true := by
  unfold pyRangeMarker
  split
  · rfl
  · split
    · rename_i h; exact wf_rangeNode_single pv lo hi h
    · rfl

/-- **meaning of complexify**: `m AND python_full_version ∈ R`, in every environment, for every
    pair of bounds -/
theorem complexify_eval (pv : νr) (lo hi : Bnd α) (m : Tree νr νb α) (hm : m.wf = true) (ρ : Env νr νb α) :
    (m.complexifyPy pv lo hi).eval ρ = (m.eval ρ && (Ivl.mk lo hi).mem (ρ.rv pv)) :=
  eval_complexifyPy pv lo hi m hm ρ

/-- **meaning of simplify**: agrees with `m` in every environment whose `python_full_version` lies in `R` -/
theorem simplify_eval_inside (pv : νr) (lo hi : Bnd α) (m : Tree νr νb α) (hm : m.wf = true)
    (ρ : Env νr νb α) (hin : (Ivl.mk lo hi).mem (ρ.rv pv) = true) :
    (m.simplifyPy pv lo hi).eval ρ = m.eval ρ :=
  eval_simplifyPy pv lo hi m hm ρ hin

/-- both operations return well-formed diagrams for all bounds -/
theorem complexify_wf (pv : νr) (lo hi : Bnd α) (m : Tree νr νb α) (hm : m.wf = true) :
    (m.complexifyPy pv lo hi).wf = true := wf_complexifyPy pv lo hi m hm
theorem simplify_wf (pv : νr) (lo hi : Bnd α) (m : Tree νr νb α) (hm : m.wf = true) :
    (m.simplifyPy pv lo hi).wf = true := wf_simplifyPy pv lo hi m hm

/-- **identity of complexify**: `complexify(m, R)` *is* the canonical marker
    `m and python_full_version in R` (same diagram, not merely same meaning) -/
theorem complexify_eq_and [DenseUnbounded α] [Inhabited α] (pv : νr) (lo hi : Bnd α)
    (m : Tree νr νb α) (hm : m.wf = true) :
    m.complexifyPy pv lo hi = Tree.and m (pyRangeMarker pv lo hi) := by
  apply canonical _ _ (wf_complexifyPy pv lo hi m hm) (wf_and m _ hm (wf_pyRangeMarker pv lo hi))
  intro ρ
  rw [eval_complexifyPy pv lo hi m hm ρ,
    C02.eval_and_of_wf ρ m _ hm (wf_pyRangeMarker pv lo hi), eval_pyRangeMarker]

/-- `complexify(simplify(m, R), R) == complexify(m, R)` -/
theorem complexify_simplify [DenseUnbounded α] [Inhabited α] (pv : νr) (lo hi : Bnd α)
    (m : Tree νr νb α) (hm : m.wf = true) :
    (m.simplifyPy pv lo hi).complexifyPy pv lo hi = m.complexifyPy pv lo hi := by
  have hs := wf_simplifyPy pv lo hi m hm
  apply canonical _ _ (wf_complexifyPy pv lo hi _ hs) (wf_complexifyPy pv lo hi m hm)
  intro ρ
  rw [eval_complexifyPy pv lo hi _ hs ρ, eval_complexifyPy pv lo hi m hm ρ]
  cases hin : (Ivl.mk lo hi).mem (ρ.rv pv) with
  | false => simp
  | true => rw [eval_simplifyPy pv lo hi m hm ρ hin]

/-- markers that agree inside `R` complexify to the same marker -/
theorem complexify_congr [DenseUnbounded α] [Inhabited α] (pv : νr) (lo hi : Bnd α)
    (m₁ m₂ : Tree νr νb α) (h₁ : m₁.wf = true) (h₂ : m₂.wf = true)
    (hag : ∀ ρ : Env νr νb α, (Ivl.mk lo hi).mem (ρ.rv pv) = true → m₁.eval ρ = m₂.eval ρ) :
    m₁.complexifyPy pv lo hi = m₂.complexifyPy pv lo hi := by
  apply canonical _ _ (wf_complexifyPy pv lo hi m₁ h₁) (wf_complexifyPy pv lo hi m₂ h₂)
  intro ρ
  rw [eval_complexifyPy pv lo hi m₁ h₁ ρ, eval_complexifyPy pv lo hi m₂ h₂ ρ]
  cases hin : (Ivl.mk lo hi).mem (ρ.rv pv) with
  | false => simp
  | true => rw [hag ρ hin]

/-! non-vacuity: a concrete marker with `pv = 0` under another range variable and a boolean -/
example : (C02.exB.complexifyPy 0 (.incl 4) .unb).wf = true := by decide
example : (C02.exB.simplifyPy 0 (.incl 4) .unb) = .bool 1 (.leaf true) (.leaf false) := by decide
example : (C02.exB.complexifyPy 0 (.incl 7) (.excl 2)) = .leaf false := by decide

end Pep508.C12
