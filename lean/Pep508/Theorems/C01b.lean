/-
C01 (clause "every whitespace layout of a derivation parses to the derivation's marker") and the
marker part of C07 — compositionality of the marker parser model, as Lean theorems.

Vocabulary (defined in `Pep508/Proofs/MarkerLayout.lean`):
* `MAst` — a derivation WITH its layout.  `atom ws a` (blanks, comparison text), `paren ws1 m ws2`
  (`ws1 ( m ws2 )`), `and l ws r` (`l ws and r`), `or l ws r` (`l ws or r`); the blanks after a
  keyword or after `(` are the leading blanks of the next atom / parenthesis, so every optional
  whitespace position of the grammar is exactly one field.  Chains are left-nested, as
  `parse_marker_op` folds them: `a and b and c` is `and (and a _ b) _ c`.
* `MAst.layout` — the text; `MAst.denote x` — the marker: `combine` over the atoms' own parses
  (`atomSem x a` = what `parse_marker_key_op_value` returns on `a` alone), warnings left to right.
* `MAst.WF` — blanks are `char::is_whitespace`; an `or` under an `and` is parenthesised; a keyword is
  preceded by a blank unless the text before it ends with a closing quote or `)` (`MAst.closed`),
  and followed by a blank, `(` or a quote (`kwStop`).
* `AtomOK x a` — the atom parses to `atomSem x a` and stops exactly after `a` in every context
  where an atom may end (anything after a closing quote; end / blank / `)` after a key name).
  Proved for `key OP 'string'` and `'string' OP key` (`atom_key_op_string`, `atom_string_op_key`).
-/
import Pep508.Proofs.AtomFrame
namespace Pep508.C01
open Pep508 Pep508.Cursor

/-! ### definitions, restated -/

example (ws a : List Char) : (MAst.atom ws a).layout = ws ++ a := rfl
example (ws1 ws2 : List Char) (m : MAst) :
    (MAst.paren ws1 m ws2).layout = ws1 ++ ('(' :: (m.layout ++ (ws2 ++ [')']))) := rfl
example (l r : MAst) (ws : List Char) :
    (MAst.and l ws r).layout = l.layout ++ (ws ++ (['a', 'n', 'd'] ++ r.layout)) := rfl
example (l r : MAst) (ws : List Char) :
    (MAst.or l ws r).layout = l.layout ++ (ws ++ (['o', 'r'] ++ r.layout)) := rfl

example (x : Ext) (ws a : List Char) :
    (MAst.atom ws a).denote x = ((atomSem x a).1.map expression, (atomSem x a).2) := rfl
example (x : Ext) (ws1 ws2 : List Char) (m : MAst) : (MAst.paren ws1 m ws2).denote x = m.denote x := rfl
example (x : Ext) (l r : MAst) (ws : List Char) : (MAst.and l ws r).denote x =
    (combine true (l.denote x).1 (r.denote x).1, (l.denote x).2 ++ (r.denote x).2) := rfl
example (x : Ext) (l r : MAst) (ws : List Char) : (MAst.or l ws r).denote x =
    (combine false (l.denote x).1 (r.denote x).1, (l.denote x).2 ++ (r.denote x).2) := rfl

/-- `AtomOK`, spelled out -/
theorem atomOK_iff (x : Ext) (a : List Char) : AtomOK x a ↔
    ∀ (c : Cursor) (rest : List Char), c.Inv → c.rest = a ++ rest →
      (endsQuote a = true ∨ ∀ ch, rest.head? = some ch → isWs ch = true ∨ ch = ')') →
      parseKeyOpValue x c = .ok (atomSem x a, c.adv a) := Iff.rfl

/-- `MAst.WF`, spelled out -/
theorem wf_atom (ws a : List Char) : (MAst.atom ws a).WF ↔
    (∀ ch ∈ ws, isWs ch = true) ∧ ∃ ch tl, a = ch :: tl ∧ isWs ch = false ∧ ch ≠ '(' := Iff.rfl
theorem wf_paren (ws1 ws2 : List Char) (m : MAst) : (MAst.paren ws1 m ws2).WF ↔
    (∀ ch ∈ ws1, isWs ch = true) ∧ (∀ ch ∈ ws2, isWs ch = true) ∧ m.WF := Iff.rfl
theorem wf_and (l r : MAst) (ws : List Char) : (MAst.and l ws r).WF ↔
    l.WF ∧ r.WF ∧ l.isAndChain = true ∧ r.isExpr = true ∧ (∀ ch ∈ ws, isWs ch = true) ∧
      (l.closed = true ∨ ws ≠ []) ∧ ∃ ch tl, r.layout = ch :: tl ∧ kwStop ch = true := Iff.rfl
theorem wf_or (l r : MAst) (ws : List Char) : (MAst.or l ws r).WF ↔
    l.WF ∧ r.WF ∧ r.isAndChain = true ∧ (∀ ch ∈ ws, isWs ch = true) ∧
      (l.closed = true ∨ ws ≠ []) ∧ ∃ ch tl, r.layout = ch :: tl ∧ kwStop ch = true := Iff.rfl

/-! ### (M1) every layout of a derivation parses to the derivation's marker -/

/-- with the default fuel, for every `Ext`: value `denote m` (TRUE when every operand was
dropped), warnings of the atoms in left-to-right order; trailing blanks allowed -/
theorem layout_parses (x : Ext) (m : MAst) (trail : List Char) (hwf : m.WF) (hat : m.AtomsOK x)
    (ht : ∀ ch ∈ trail, isWs ch = true) :
    parseMarkers x (m.layout ++ trail) = .ok ((m.denote x).1.getD (.leaf true), (m.denote x).2) :=
  parseMarkers_layout x m trail hwf hat ht

/-- the same at any cursor of a larger input (the call of the requirement parser after `;`,
C07), for every fuel at least `4 * remaining + 3`: the cursor ends at the end of the input -/
theorem layout_parses_cursor (x : Ext) (m : MAst) (trail : List Char) (hwf : m.WF)
    (hat : m.AtomsOK x) (ht : ∀ ch ∈ trail, isWs ch = true) (c : Cursor) (hi : c.Inv)
    (hrest : c.rest = m.layout ++ trail) (fuel : Nat) (hf : 4 * c.rest.length + 3 ≤ fuel) :
    parseMarkersCursor x fuel c = .ok ⟨(m.denote x).1, (m.denote x).2, c.adv (m.layout ++ trail)⟩ :=
  parseMarkersCursor_layout x m trail hwf hat ht c hi hrest fuel hf

/-- a layout followed by text that does not continue the marker (its next word is neither `and`
nor `or`): the error is at the first non-blank char after the marker -/
theorem layout_then_junk (x : Ext) (m : MAst) (rest : List Char) (hwf : m.WF) (hat : m.AtomsOK x)
    (hend : m.closed = true ∨ ∀ ch, rest.head? = some ch → isWs ch = true ∨ ch = ')')
    (hk1 : kwWord rest ≠ ['a', 'n', 'd']) (hk2 : kwWord rest ≠ ['o', 'r']) :
    parseMarkers x (m.layout ++ rest) =
      match rest.dropWhile isWs with
      | [] => .ok ((m.denote x).1.getD (.leaf true), (m.denote x).2)
      | _ :: tl => .err ⟨.string, strLen m.layout + strLen (rest.takeWhile isWs), tl.length⟩ :=
  parseMarkers_layout_rest x m rest hwf hat hend hk1 hk2

/-- the generalised statement behind M1: `parse_marker_or` on a layout followed by any
continuation that does not continue the marker, any accumulated warnings, any sufficient fuel -/
theorem layout_parses_sub (x : Ext) (m : MAst) (hwf : m.WF) (hat : m.AtomsOK x) (c : Cursor)
    (w : List WarnKind) (rest : List Char) (hi : c.Inv) (hrest : c.rest = m.layout ++ rest)
    (hend : m.closed = true ∨ ∀ ch, rest.head? = some ch → isWs ch = true ∨ ch = ')')
    (hk1 : kwWord rest ≠ ['a', 'n', 'd']) (hk2 : kwWord rest ≠ ['o', 'r'])
    (fuel : Nat) (hf : 4 * c.rest.length + 3 ≤ fuel) :
    parseOp x false fuel c w =
      .ok ⟨(m.denote x).1, w ++ (m.denote x).2, (c.adv m.layout).eatWhitespace⟩ :=
  parseOp_layout x m hwf hat c w rest hi hrest hend hk1 hk2 fuel hf

/-- more fuel gives the same result (used to reach the default fuel) -/
theorem more_fuel_same (x : Ext) {fuel fuel' : Nat} (hle : fuel ≤ fuel') (isAnd : Bool) (c : Cursor)
    (w : List WarnKind) (h : parseOp x isAnd fuel c w ≠ .panic "stack") :
    parseOp x isAnd fuel' c w = parseOp x isAnd fuel c w := parseOp_fuel_mono x hle isAnd c w h

/-! ### (M2) layout independence -/

/-- two well-formed layouts of the same skeleton (same atoms, same and/or/parenthesis structure,
different whitespace runs) parse to the same marker and the same warnings -/
theorem layout_independent (x : Ext) (m m' : MAst) (trail trail' : List Char)
    (hs : m.skel = m'.skel) (hwf : m.WF) (hwf' : m'.WF) (hat : m.AtomsOK x) (hat' : m'.AtomsOK x)
    (ht : ∀ ch ∈ trail, isWs ch = true) (ht' : ∀ ch ∈ trail', isWs ch = true) :
    parseMarkers x (m.layout ++ trail) = parseMarkers x (m'.layout ++ trail') :=
  parseMarkers_layout_indep x m m' trail trail' hs hwf hwf' hat hat' ht ht'

/-- redundant parentheses do not change the marker -/
theorem paren_transparent (x : Ext) (ws1 ws2 : List Char) (m : MAst) :
    (MAst.paren ws1 m ws2).denote x = m.denote x := rfl

/-! ### `AtomOK` is satisfiable: the two comparison shapes -/

/-- `key w1 OP w2 'v'`: any key name of the table, any symbolic operator, either quote char, any
blanks, any value not containing that quote char (backslashes are ordinary chars).  Ends with a
closing quote, so a keyword may follow directly. -/
theorem atom_key_op_string (x : Ext) {k w1 o w2 v : List Char} {q : Char} {kv : MValue} {op : MOp}
    (hk : ∀ ch ∈ k, idChar ch = true) (hh : ∃ ch tl, k = ch :: tl ∧ (!isQuote ch) = true)
    (hkey : keyOfName (String.ofList k) = some kv)
    (hw1 : ∀ ch ∈ w1, isWs ch = true) (ho : ∀ ch ∈ o, symChar ch = true)
    (hop : opOfToken (String.ofList o) = some op)
    (hw2 : ∀ ch ∈ w2, isWs ch = true) (hq : isQuote q = true) (hv : ∀ ch ∈ v, (ch != q) = true) :
    AtomOK x (atomKOV k w1 o w2 q v) ∧
      atomSem x (atomKOV k w1 o w2 q v) = dispatch x kv op (.quoted v) ∧
      endsQuote (atomKOV k w1 o w2 q v) = true :=
  have h := atomOK_kov x hk hh hkey hw1 ho hop hw2 hq hv
  ⟨h.1, h.2, endsQuote_kov k w1 o w2 v hq⟩

/-- `'v' w1 OP w2 key`.  Ends with a key name, so a blank, `)` or the end must follow.  When the
operator touches the key (`w2 = []`), `char::is_alphabetic` must be false on operator chars (it is). -/
theorem atom_string_op_key (x : Ext) {k w1 o w2 v : List Char} {q : Char} {kv : MValue} {op : MOp}
    (hk : ∀ ch ∈ k, idChar ch = true) (hh : ∃ ch tl, k = ch :: tl ∧ (!isQuote ch) = true)
    (hl : endsQuote k = false) (hkey : keyOfName (String.ofList k) = some kv)
    (hw1 : ∀ ch ∈ w1, isWs ch = true) (ho : ∀ ch ∈ o, symChar ch = true)
    (hop : opOfToken (String.ofList o) = some op)
    (hw2 : ∀ ch ∈ w2, isWs ch = true) (hq : isQuote q = true) (hv : ∀ ch ∈ v, (ch != q) = true)
    (halpha : w2 ≠ [] ∨ ∀ ch, symChar ch = true → x.alpha ch = false) :
    AtomOK x (atomVOK q v w1 o w2 k) ∧
      atomSem x (atomVOK q v w1 o w2 k) = dispatch x (.quoted v) op kv ∧
      endsQuote (atomVOK q v w1 o w2 k) = false :=
  have h := atomOK_vok x hk hh hl hkey hw1 ho hop hw2 hq hv halpha
  ⟨h.1, h.2, endsQuote_vok q v w1 o w2 (HeadIs.ne_nil hh) hl⟩

/-! ### (M3) keyword boundaries, on concrete texts and for every `Ext` -/

/-- what ends the keyword run: whitespace, `(`, a quote — nothing else (not `)`, not an operator
char, not a letter) -/
theorem kwStop_iff (ch : Char) :
    kwStop ch = true ↔ isWs ch = true ∨ ch = '(' ∨ ch = '\'' ∨ ch = '"' := by
  simp [kwStop, or_assoc]

private def osName : List Char := "os_name".toList

/-- `os_name w1 == w2 q v q` -/
private def cmp (w1 w2 : List Char) (q : Char) (v : List Char) : List Char :=
  atomKOV osName w1 ['=', '='] w2 q v

private theorem cmp_ok (x : Ext) (w1 w2 : List Char) (q : Char) (v : List Char)
    (hw1 : AllP isWs w1) (hw2 : AllP isWs w2) (hq : isQuote q = true) (hv : AllP (fun ch => ch != q) v) :
    AtomOK x (cmp w1 w2 q v) ∧
      atomSem x (cmp w1 w2 q v) = (some (.string ⟨1⟩ .eq (String.ofList v)), []) ∧
      endsQuote (cmp w1 w2 q v) = true :=
  atom_key_op_string x (k := osName) (kv := .strKey ⟨1⟩) (op := .eq) (by decide)
    ⟨'o', _, rfl, by decide⟩ (by decide) hw1 (by decide) (by decide) hw2 hq hv

private theorem cmp_head (w1 w2 : List Char) (q : Char) (v : List Char) : AtomHead (cmp w1 w2 q v) :=
  ⟨'o', _, rfl, by decide, by decide⟩

/-- `q v q == os_name` -/
private def rcmp (q : Char) (v : List Char) : List Char := atomVOK q v [' '] ['=', '='] [' '] osName

private theorem rcmp_ok (x : Ext) (q : Char) (v : List Char) (hq : isQuote q = true)
    (hv : AllP (fun ch => ch != q) v) :
    AtomOK x (rcmp q v) ∧ atomSem x (rcmp q v) = (some (.string ⟨1⟩ .eq (String.ofList v)), []) ∧
      endsQuote (rcmp q v) = false :=
  atom_string_op_key x (k := osName) (kv := .strKey ⟨1⟩) (op := .eq) (by decide)
    ⟨'o', _, rfl, by decide⟩ (by decide) (by decide) (by decide) (by decide) (by decide) (by decide)
    hq hv (.inl (by decide))

private abbrev eA : MTree := expression (.string ⟨1⟩ .eq "a")
private abbrev eB : MTree := expression (.string ⟨1⟩ .eq "b")
private abbrev eC : MTree := expression (.string ⟨1⟩ .eq "c")

/-- a closing quote is a keyword boundary on the left: `'a'and` is `'a' and` -/
theorem quote_then_keyword (x : Ext) :
    parseMarkers x "os_name == 'a'and os_name == 'b'".toList = .ok (Tree.and eA eB, []) := by
  have hq : isQuote '\'' = true := by decide
  have ha := cmp_ok x [' '] [' '] '\'' ['a'] (by decide) (by decide) hq (by decide)
  have hb := cmp_ok x [' '] [' '] '\'' ['b'] (by decide) (by decide) hq (by decide)
  have h := layout_parses x
    (.and (.atom [] (cmp [' '] [' '] '\'' ['a'])) [] (.atom [' '] (cmp [' '] [' '] '\'' ['b']))) []
    ⟨⟨AllP.nil _, cmp_head _ _ _ _⟩, ⟨by decide, cmp_head _ _ _ _⟩, rfl, rfl, AllP.nil _, .inl ha.2.2,
      ⟨' ', _, rfl, by decide⟩⟩
    ⟨ha.1, hb.1⟩ (AllP.nil _)
  simp only [MAst.denote, ha.2.1, hb.2.1] at h
  exact h

/-- … the same marker as with the blank -/
theorem quote_then_keyword_same (x : Ext) :
    parseMarkers x "os_name == 'a'and os_name == 'b'".toList =
      parseMarkers x "os_name == 'a' and os_name == 'b'".toList := by
  have hq : isQuote '\'' = true := by decide
  have ha := cmp_ok x [' '] [' '] '\'' ['a'] (by decide) (by decide) hq (by decide)
  have hb := cmp_ok x [' '] [' '] '\'' ['b'] (by decide) (by decide) hq (by decide)
  exact layout_independent x
    (.and (.atom [] (cmp [' '] [' '] '\'' ['a'])) [] (.atom [' '] (cmp [' '] [' '] '\'' ['b'])))
    (.and (.atom [] (cmp [' '] [' '] '\'' ['a'])) [' '] (.atom [' '] (cmp [' '] [' '] '\'' ['b'])))
    [] [] rfl
    ⟨⟨AllP.nil _, cmp_head _ _ _ _⟩, ⟨by decide, cmp_head _ _ _ _⟩, rfl, rfl, AllP.nil _, .inl ha.2.2,
      ⟨' ', _, rfl, by decide⟩⟩
    ⟨⟨AllP.nil _, cmp_head _ _ _ _⟩, ⟨by decide, cmp_head _ _ _ _⟩, rfl, rfl, by decide, .inl ha.2.2,
      ⟨' ', _, rfl, by decide⟩⟩
    ⟨ha.1, hb.1⟩ ⟨ha.1, hb.1⟩ (AllP.nil _) (AllP.nil _)

/-- `)`, a quote and `(` are keyword boundaries: no blank needed in `)and'` and `or(` — but the
key name `os_name` must be followed by a blank -/
theorem paren_quote_boundaries (x : Ext) :
    parseMarkers x "(os_name == 'a')and'b' == os_name or(os_name == 'c')".toList =
      .ok (Tree.or (Tree.and eA eB) eC, []) := by
  have hq : isQuote '\'' = true := by decide
  have ha := cmp_ok x [' '] [' '] '\'' ['a'] (by decide) (by decide) hq (by decide)
  have hb := rcmp_ok x '\'' ['b'] hq (by decide)
  have hc := cmp_ok x [' '] [' '] '\'' ['c'] (by decide) (by decide) hq (by decide)
  have h := layout_parses x
    (.or (.and (.paren [] (.atom [] (cmp [' '] [' '] '\'' ['a'])) []) [] (.atom [] (rcmp '\'' ['b'])))
      [' '] (.paren [] (.atom [] (cmp [' '] [' '] '\'' ['c'])) [])) []
    ⟨⟨⟨AllP.nil _, AllP.nil _, AllP.nil _, cmp_head _ _ _ _⟩,
        ⟨AllP.nil _, '\'', _, rfl, by decide, by decide⟩, rfl, rfl, AllP.nil _, .inl rfl,
        ⟨'\'', _, rfl, by decide⟩⟩,
      ⟨AllP.nil _, AllP.nil _, AllP.nil _, cmp_head _ _ _ _⟩, rfl, by decide, .inr (by decide),
      ⟨'(', _, rfl, by decide⟩⟩
    ⟨⟨ha.1, hb.1⟩, hc.1⟩ (AllP.nil _)
  simp only [MAst.denote, ha.2.1, hb.2.1, hc.2.1] at h
  exact h

/-- a letter is NOT a keyword boundary on the right: in `"a" andos_name` the word is `andos_name`,
not the keyword, so the marker ends after `"a"` and the rest is an error at the `a` of `andos_name`
(byte 15; the length is the number of chars after that char) -/
theorem keyword_glued_right (x : Ext) :
    parseMarkers x "os_name == \"a\" andos_name == 'b'".toList = .err ⟨.string, 15, 16⟩ := by
  have hq : isQuote '"' = true := by decide
  have ha := cmp_ok x [' '] [' '] '"' ['a'] (by decide) (by decide) hq (by decide)
  have h := layout_then_junk x (.atom [] (cmp [' '] [' '] '"' ['a'])) " andos_name == 'b'".toList
    ⟨AllP.nil _, cmp_head _ _ _ _⟩ ha.1 (.inl ha.2.2) (by decide) (by decide)
  exact h

/-- keywords are case-sensitive, and `-` (or any char other than blank, `(`, quote) glues too -/
theorem keyword_uppercase (x : Ext) :
    parseMarkers x "os_name == 'a' AND os_name == 'b'".toList = .err ⟨.string, 15, 17⟩ := by
  have hq : isQuote '\'' = true := by decide
  have ha := cmp_ok x [' '] [' '] '\'' ['a'] (by decide) (by decide) hq (by decide)
  exact layout_then_junk x (.atom [] (cmp [' '] [' '] '\'' ['a'])) " AND os_name == 'b'".toList
    ⟨AllP.nil _, cmp_head _ _ _ _⟩ ha.1 (.inl ha.2.2) (by decide) (by decide)

theorem keyword_then_paren_close (x : Ext) :
    parseMarkers x "os_name == 'a' and)".toList = .err ⟨.string, 15, 3⟩ := by
  have hq : isQuote '\'' = true := by decide
  have ha := cmp_ok x [' '] [' '] '\'' ['a'] (by decide) (by decide) hq (by decide)
  exact layout_then_junk x (.atom [] (cmp [' '] [' '] '\'' ['a'])) " and)".toList
    ⟨AllP.nil _, cmp_head _ _ _ _⟩ ha.1 (.inl ha.2.2) (by decide) (by decide)

/-- a key name is NOT a keyword boundary on the left: `os_nameand` is lexed as one (unknown) key
name; error at byte 7, length 10 (concrete `Ext`: the failing path is outside `AtomOK`) -/
theorem keyword_glued_left :
    (match parseMarkers ⟨fun _ => none, fun _ => none, fun _ => false⟩
        "'a' == os_nameand os_name == 'b'".toList with
      | .err e => e == ⟨.string, 7, 10⟩
      | _ => false) = true := by decide

/-- blanks are Unicode `White_Space` (Rust `char::is_whitespace`), not only the space and tab of the
PEP 508 grammar: a no-break space or a line separator after the keyword parses like a space -/
theorem unicode_blank_same (x : Ext) :
    parseMarkers x ("os_name == 'a' and".toList ++ [Char.ofNat 0xA0] ++ "os_name == 'b'".toList) =
      parseMarkers x "os_name == 'a' and os_name == 'b'".toList := by
  have hq : isQuote '\'' = true := by decide
  have ha := cmp_ok x [' '] [' '] '\'' ['a'] (by decide) (by decide) hq (by decide)
  have hb := cmp_ok x [' '] [' '] '\'' ['b'] (by decide) (by decide) hq (by decide)
  exact layout_independent x
    (.and (.atom [] (cmp [' '] [' '] '\'' ['a'])) [' '] (.atom [Char.ofNat 0xA0] (cmp [' '] [' '] '\'' ['b'])))
    (.and (.atom [] (cmp [' '] [' '] '\'' ['a'])) [' '] (.atom [' '] (cmp [' '] [' '] '\'' ['b'])))
    [] [] rfl
    ⟨⟨AllP.nil _, cmp_head _ _ _ _⟩, ⟨by decide, cmp_head _ _ _ _⟩, rfl, rfl, by decide, .inl ha.2.2,
      ⟨Char.ofNat 0xA0, _, rfl, by decide⟩⟩
    ⟨⟨AllP.nil _, cmp_head _ _ _ _⟩, ⟨by decide, cmp_head _ _ _ _⟩, rfl, rfl, by decide, .inl ha.2.2,
      ⟨' ', _, rfl, by decide⟩⟩
    ⟨ha.1, hb.1⟩ ⟨ha.1, hb.1⟩ (AllP.nil _) (AllP.nil _)

end Pep508.C01
