/-
C10 — python_version comparisons behave as PEP 440 on the major.minor version.

`expression (.version .pyVer s)` models `InternerGuard::expression` for a `python_version`
comparison (`normalize_specifier` → `python_version_to_full_version` → `release_specifier_to_range`
→ `from_range`), after the repairs F11 / F12.  `Spec.specSem` is PEP 440 release-segment
comparison written from the PEP (Proofs/ExprSpec.lean).  The interpreter is `X.Y.Z`; the
`python_version` it reports is `X.Y`.
-/
import Pep508.Proofs.ExprStr
namespace Pep508.C10
open Pep508 Pep508.Spec

/-- for every operator, every literal and every final interpreter version X.Y.Z:
    `python_version OP 'V'` is true exactly when `X.Y OP V` holds under PEP 440
    (carve-out: wildcard with more than two release segments, pinned constant by the suite) -/
theorem python_version_sem (s : Pep508.Spec) (hw : Spec.wellFormed s)
    (hc : ¬ (s.op.isStar = true ∧ 2 < s.rel.length)) (X Y Z : Nat) (ρ : Env VarR VarB Val)
    (hρ : ρ.rv (.ver .pfv) = candVal [X, Y, Z]) :
    (expression (.version .pyVer s)).eval ρ = specSem s.op s.rel [X, Y] :=
  eval_expression_pyVer ρ s X Y Z hw hc hρ

/-- `!=` is the negation of `==`, for ALL literals (carved-out ones included) -/
theorem ne_is_not_eq (r : List Nat) (h : r ≠ []) :
    expression (.version .pyVer ⟨.ne, r⟩) = (expression (.version .pyVer ⟨.eq, r⟩)).not :=
  expression_pyVer_ne r h

theorem neStar_is_not_eqStar (r : List Nat) (h : r ≠ []) :
    expression (.version .pyVer ⟨.neStar, r⟩) = (expression (.version .pyVer ⟨.eqStar, r⟩)).not :=
  expression_pyVer_neStar r h

/-- `not in` is the negation of `in`, for ALL lists (the F12 repair) -/
theorem notIn_is_not_in (vs : List (List Nat)) :
    expression (.versionIn .pyVer vs true) = (expression (.versionIn .pyVer vs false)).not :=
  expression_pyVer_notIn vs

/-- the in-list form: membership of X.Y by PEP 440 `==` (members of one or two segments) -/
theorem python_version_in_sem (vs : List (List Nat)) (neg : Bool)
    (hv : ∀ v ∈ vs, v.length = 1 ∨ v.length = 2) (X Y Z : Nat) (ρ : Env VarR VarB Val)
    (hρ : ρ.rv (.ver .pfv) = candVal [X, Y, Z]) :
    (expression (.versionIn .pyVer vs neg)).eval ρ = (neg != vs.any (fun v => cmpRel [X, Y] v == .eq)) :=
  eval_expression_pyVer_in ρ vs neg X Y Z hv hρ

/-- it *is* a `python_full_version` diagram: well-formed, so C02 / C03 apply to combinations of
    `python_version` and `python_full_version` constraints -/
theorem python_version_wf (e : MExpr) : (expression e).wf = true := wf_expression e

/-- witnesses that the stated carve-out is real (pinned by the existing suite) -/
example : expression (.version .pyVer ⟨.eqStar, [3, 9, 0]⟩) = .leaf false := by decide
example : expression (.versionIn .pyVer [[3, 9, 0]] false) = .leaf false := by decide
/-- non-vacuity -/
example : expression (.version .pyVer ⟨.ge, [3, 8]⟩) =
    .rng (.ver .pfv) (.cons ⟨.unb, .excl (.ver [3, 8])⟩ (.leaf false) (.cons ⟨.incl (.ver [3, 8]), .unb⟩ (.leaf true) .nil)) := by
  decide

end Pep508.C10
