/-
C03 at the model's OWN value order.

C03 (`equal_iff_same_function`) is stated over value orders that are dense without end points.  The
value order of markers (`Val`: release lists compared lexicographically, all versions below all
strings, strings by code points) is NOT such an order (`val_not_dense_unbounded`): version `0` (the
empty normalized release) is the least value, `w` and `w.0` are adjacent, `s` and `s\0` are adjacent.
Consequently canonicity FAILS for some well-formed diagrams over `Val`:
  * `python_full_version < '0'` is well formed, false in every environment, and not the FALSE
    terminal (`lt_zero_constantly_false`) — this is what the text of FALSE parses to (C05);
  * `os_name > 'a' and os_name < 'a\0'` likewise (`str_gap_constantly_false`).
What holds over `Val` is RELATIVE canonicity (`equal_iff_same_function_val`): two well-formed
diagrams all of whose bounds are *separated* values (`SepV`: versions other than `0` without trailing
zero segment — the stored form of every release except `0` — and strings not ending in U+0000) that
agree in every environment are identical.  The generic statement behind it (`canonical_relative`)
needs no assumption on the order at all: only that every valid interval with bounds in `P` is
inhabited; C03 is the instance `P = True` for dense orders (`relative_generalises_dense`).
The bounds of `not x`, `and x y`, `or x y` are bounds of the operands (`bounds_not/and/or`), and the
bounds of an expression diagram are the stripped releases / strings of the expression, so the
separated diagrams are closed under the algebra.
-/
import Pep508.Proofs.ValDense
import Pep508.Proofs.NormBounds
import Pep508.Theorems.C03
namespace Pep508.C03
open Pep508

/-! ### the value order of markers is not dense-unbounded -/

theorem val_not_dense_unbounded : ¬ DenseUnbounded Val := by
  intro h
  obtain ⟨c, hc⟩ := h.no_min (.ver [])
  cases c with
  | ver a => cases a <;> simp [Val.lt_ver, verLt] at hc
  | str s => exact Val.not_lt_str_ver s [] hc

/-- version `0` is the least value -/
theorem ver_zero_least (x : Val) : ¬ x < Val.ver [] := by
  intro h
  cases x with
  | ver a => cases a <;> simp [Val.lt_ver, verLt] at h
  | str s => exact Val.not_lt_str_ver s [] h

/-- nothing lies strictly between the strings `a` and `a\0` -/
theorem str_gap_empty (x : Val) : ¬ (Val.str "a" < x ∧ x < Val.str "a\x00") := by
  rintro ⟨h1, h2⟩
  cases x with
  | ver a => exact Val.not_lt_str_ver _ _ h1
  | str s =>
    rw [Val.lt_str, String.lt_iff] at h1 h2
    have e1 : ("a" : String).toList = ['a'] := rfl
    have e2 : ("a\x00" : String).toList = ['a', nulChar] := rfl
    rw [e1] at h1; rw [e2] at h2
    cases hs : s.toList with
    | nil => rw [hs] at h1; exact List.not_lt_nil _ h1
    | cons c l =>
      rw [hs] at h1 h2
      rw [List.cons_lt_cons_iff] at h1 h2
      rcases h2 with h2 | ⟨rfl, h2⟩
      · rcases h1 with h1 | ⟨rfl, _⟩
        · exact absurd (Char.lt_trans h1 h2) (Char.lt_irrefl _)
        · exact absurd h2 (Char.lt_irrefl _)
      · rcases h1 with h1 | ⟨_, h1⟩
        · exact absurd h1 (Char.lt_irrefl _)
        · cases l with
          | nil => exact List.not_lt_nil _ h1
          | cons d l' =>
            rw [List.cons_lt_cons_iff] at h2
            rcases h2 with h2 | ⟨_, h2⟩
            · exact not_lt_nul d h2
            · exact List.not_lt_nil _ h2

/-! ### the two failure shapes -/

/-- `python_full_version < '0'` -/
def ltZero : MTree := expression (.version .pfv ⟨.lt, [0]⟩)

theorem lt_zero_constantly_false :
    ltZero.wf = true ∧ ltZero ≠ .leaf false ∧ ∀ ρ : Env VarR VarB Val, ltZero.eval ρ = false := by
  refine ⟨by decide, by decide, fun ρ => ?_⟩
  have e : ltZero = .rng (.ver .pfv) (.cons ⟨.unb, .excl (.ver [])⟩ (.leaf true)
      (.cons ⟨.incl (.ver []), .unb⟩ (.leaf false) .nil)) := by decide
  rw [e]
  simp [Tree.eval, Edges.eval, Ivl.mem, Bnd.loOk, Bnd.hiOk, ver_zero_least]

/-- `os_name > 'a' and os_name < 'a\0'` -/
def strGap : MTree :=
  Tree.and (expression (.string ⟨1⟩ .gt "a")) (expression (.string ⟨1⟩ .lt "a\x00"))

theorem str_gap_constantly_false :
    strGap.wf = true ∧ strGap ≠ .leaf false ∧ ∀ ρ : Env VarR VarB Val, strGap.eval ρ = false := by
  refine ⟨by decide, by decide, fun ρ => ?_⟩
  have e : strGap = .rng (.str ⟨1⟩) (.cons ⟨.unb, .incl (.str "a")⟩ (.leaf false)
      (.cons ⟨.excl (.str "a"), .excl (.str "a\x00")⟩ (.leaf true)
        (.cons ⟨.incl (.str "a\x00"), .unb⟩ (.leaf false) .nil))) := by decide
  rw [e]
  have hgap := str_gap_empty (ρ.rv (.str ⟨1⟩))
  simp only [Tree.eval, Edges.eval, Ivl.mem, Bnd.loOk, Bnd.hiOk, Bool.true_and, Bool.and_true]
  by_cases h1 : Val.str "a" < ρ.rv (.str ⟨1⟩)
  · have h2 : ¬ ρ.rv (.str ⟨1⟩) < Val.str "a\x00" := fun h => hgap ⟨h1, h⟩
    simp [h1, h2]
  · simp [h1]

/-- so `is_false_iff` (and with it `equal_iff_same_function`) is false over `Val` -/
theorem is_false_iff_fails_over_val :
    ¬ ∀ x : MTree, x.wf = true → (x = .leaf false ↔ ∀ ρ : Env VarR VarB Val, x.eval ρ = false) := by
  intro h
  obtain ⟨h1, h2, h3⟩ := lt_zero_constantly_false
  exact h2 ((h ltZero h1).2 h3)

/-! ### relative canonicity -/

/-- the generic statement: any linear order, any bound predicate `P` such that every valid interval
with bounds in `P` is inhabited -/
theorem canonical_relative {νr νb α : Type}
    [LT α] [LE α] [Std.IsLinearOrder α] [Std.LawfulOrderLT α] [DecidableLT α] [DecidableEq α]
    [LT νr] [LE νr] [Std.IsLinearOrder νr] [Std.LawfulOrderLT νr] [DecidableLT νr] [DecidableEq νr]
    [LT νb] [LE νb] [Std.IsLinearOrder νb] [Std.LawfulOrderLT νb] [DecidableLT νb] [DecidableEq νb]
    [Inhabited α] (P : α → Prop)
    (inh : ∀ iv : Ivl α, iv.valid = true → Ivl.Kind P iv → ∃ a, iv.mem a = true)
    (x y : Tree νr νb α) (hx : x.wf = true) (hy : y.wf = true) (bx : x.AllB P) (by_ : y.AllB P)
    (h : ∀ ρ : Env νr νb α, x.eval ρ = y.eval ρ) : x = y :=
  canonical_rel P inh x y hx hy bx by_ h

/-- C03 is the instance `P = True` -/
theorem relative_generalises_dense {α : Type}
    [LT α] [LE α] [Std.IsLinearOrder α] [Std.LawfulOrderLT α] [DecidableLT α] [DecidableEq α]
    [DenseUnbounded α] [Inhabited α] :
    ∀ iv : Ivl α, iv.valid = true → Ivl.Kind (fun _ => True) iv → ∃ a, iv.mem a = true :=
  inhabits_of_dense

example (w : List Nat) : SepV (.ver w) ↔ w ≠ [] ∧ w.getLast? ≠ some 0 := Iff.rfl
example (s : String) : SepV (.str s) ↔ s.toList.getLast? ≠ some (Char.ofNat 0) := Iff.rfl

/-- every valid interval whose bounds are separated values contains a value -/
theorem separated_intervals_inhabited :
    ∀ iv : Ivl Val, iv.valid = true → Ivl.Kind SepV iv → ∃ a, iv.mem a = true := inhabits_sep

/-- **C03 over the value order of markers**: well-formed diagrams with separated bounds are equal
iff they denote the same function -/
theorem equal_iff_same_function_val (x y : MTree) (hx : x.wf = true) (hy : y.wf = true)
    (bx : x.AllB SepV) (by_ : y.AllB SepV) :
    x = y ↔ ∀ ρ : Env VarR VarB Val, x.eval ρ = y.eval ρ :=
  ⟨fun h ρ => by rw [h], canonical_rel SepV inhabits_sep x y hx hy bx by_⟩

theorem is_true_iff_val (x : MTree) (hx : x.wf = true) (bx : x.AllB SepV) :
    x = .leaf true ↔ ∀ ρ : Env VarR VarB Val, x.eval ρ = true :=
  ⟨fun h ρ => by rw [h]; rfl,
   fun h => canonical_rel SepV inhabits_sep x (.leaf true) hx rfl bx trivial (fun ρ => by rw [h ρ]; rfl)⟩

theorem is_false_iff_val (x : MTree) (hx : x.wf = true) (bx : x.AllB SepV) :
    x = .leaf false ↔ ∀ ρ : Env VarR VarB Val, x.eval ρ = false :=
  ⟨fun h ρ => by rw [h]; rfl,
   fun h => canonical_rel SepV inhabits_sep x (.leaf false) hx rfl bx trivial (fun ρ => by rw [h ρ]; rfl)⟩

/-- the two failure shapes are exactly outside the hypothesis -/
theorem failure_shapes_not_separated : ¬ ltZero.AllB SepV ∧ ¬ strGap.AllB SepV := by
  constructor
  · intro h
    exact lt_zero_constantly_false.2.1
      ((is_false_iff_val ltZero lt_zero_constantly_false.1 h).2 lt_zero_constantly_false.2.2)
  · intro h
    exact str_gap_constantly_false.2.1
      ((is_false_iff_val strGap str_gap_constantly_false.1 h).2 str_gap_constantly_false.2.2)

/-! ### the separated diagrams are closed under the algebra -/

theorem bounds_not (P : Val → Prop) (x : MTree) (hx : x.AllB P) : x.not.AllB P := Tree.AllB_not P x hx
theorem bounds_and (P : Val → Prop) (x y : MTree) (hx : x.AllB P) (hy : y.AllB P) :
    (Tree.and x y).AllB P := AllB_and P x y hx hy
theorem bounds_or (P : Val → Prop) (x y : MTree) (hx : x.AllB P) (hy : y.AllB P) :
    (Tree.or x y).AllB P := AllB_or P x y hx hy

/-- every expression diagram stores its version bounds with trailing zeros stripped -/
theorem expression_bounds_normalized (e : MExpr) : (expression e).AllB NormV :=
  expression_normBounds e

/-- a normalized version bound is separated unless it is version `0` -/
theorem sep_of_norm (w : List Nat) (hw : stripZeros w = w) (h0 : w ≠ []) : SepV (.ver w) := by
  refine ⟨h0, fun hl => ?_⟩
  have := stripZeros_ne_zero
  -- a list ending in 0 is changed by `stripZeros`
  have hr : w.reverse.head? = some 0 := by rw [List.head?_reverse]; exact hl
  cases hrv : w.reverse with
  | nil => rw [hrv] at hr; cases hr
  | cons a r =>
    rw [hrv] at hr
    simp only [List.head?_cons, Option.some.injEq] at hr
    subst hr
    have hlen : (stripZeros w).length < w.length := by
      unfold stripZeros
      rw [hrv, List.length_reverse]
      have h1 : ((0 :: r).dropWhile (· == 0)).length ≤ r.length := by
        rw [List.dropWhile_cons]
        simp only [beq_self_eq_true, if_true]
        exact (List.dropWhile_sublist _).length_le
      have h2 : w.length = r.length + 1 := by
        rw [← List.length_reverse, hrv]; rfl
      omega
    rw [hw] at hlen
    exact Nat.lt_irrefl _ hlen

end Pep508.C03

section
#print axioms Pep508.C03.val_not_dense_unbounded
#print axioms Pep508.C03.str_gap_empty
#print axioms Pep508.C03.lt_zero_constantly_false
#print axioms Pep508.C03.str_gap_constantly_false
#print axioms Pep508.C03.is_false_iff_fails_over_val
#print axioms Pep508.C03.canonical_relative
#print axioms Pep508.C03.relative_generalises_dense
#print axioms Pep508.C03.separated_intervals_inhabited
#print axioms Pep508.C03.equal_iff_same_function_val
#print axioms Pep508.C03.is_true_iff_val
#print axioms Pep508.C03.is_false_iff_val
#print axioms Pep508.C03.failure_shapes_not_separated
#print axioms Pep508.C03.bounds_and
#print axioms Pep508.C03.bounds_or
#print axioms Pep508.C03.bounds_not
#print axioms Pep508.C03.expression_bounds_normalized
#print axioms Pep508.C03.sep_of_norm
end
