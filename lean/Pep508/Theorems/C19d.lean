/-
C19 (extension feature): `normalize_absolute_path` on absolute Unix paths and `VerbatimUrl::from_absolute_path`
(model: `Pep508/Model/Path.lean`).  For every input, without bounds:

* the fragment (the text after the first `#`) never influences the path and comes back exactly as written;
* the components left by the walk are normal: non-empty, not `.`, not `..`, free of `/`;
* normalising is idempotent, the result starts with `/`, and its components are exactly the cleaned components;
* `..` escapes the root exactly when some prefix of the segments has more `..` than normal segments;
* empty segments (doubled or trailing slashes) and `.` segments never matter.
-/
import Pep508.Model.Path
import Pep508.Proofs.Path

namespace Pep508.C19
open Pep508 Pep508.PathLemmas

/-! ### 1. the fragment -/

/-- the fragment never influences the path and comes back exactly as written -/
theorem fragment_verbatim (p f : List Char) (hp : ∀ c ∈ p, c ≠ '#') (hhead : p.head? = some '/') :
    fromAbsolutePath (p ++ '#' :: f) =
      (match normalizeAbsolutePath p with
       | none => .escapes
       | some q => .ok q (some f)) := by
  cases p with
  | nil => simp at hhead
  | cons a t =>
    have ha : a = '/' := by simpa using hhead
    subst ha
    have hsf := splitFragment_hash ('/' :: t) f hp
    simp only [List.cons_append] at hsf ⊢
    simp only [fromAbsolutePath, hsf]
    cases normalizeAbsolutePath ('/' :: t) <;> rfl

/-- without a `#` there is no fragment -/
theorem no_fragment (p : List Char) (hp : ∀ c ∈ p, c ≠ '#') (hhead : p.head? = some '/') :
    fromAbsolutePath p =
      (match normalizeAbsolutePath p with
       | none => .escapes
       | some q => .ok q none) := by
  cases p with
  | nil => simp at hhead
  | cons a t =>
    have ha : a = '/' := by simpa using hhead
    subst ha
    have hsf := splitFragment_none ('/' :: t) hp
    simp only [fromAbsolutePath, hsf]
    cases normalizeAbsolutePath ('/' :: t) <;> rfl

/-- a text that does not start with `/` is refused as relative, whatever follows -/
theorem relative_of_head (s : List Char) (h : s.head? ≠ some '/') : fromAbsolutePath s = .relative := by
  unfold fromAbsolutePath
  split
  · simp at h
  · rfl

/-! ### 2. the components are normal -/

theorem components_clean {s : List Char} {cs : List (List Char)} (h : normComponents s = some cs) :
    ∀ c ∈ cs, c ≠ [] ∧ c ≠ ['.'] ∧ c ≠ ['.', '.'] ∧ (∀ x ∈ c, x ≠ '/') :=
  normComponents_clean s cs h

/-! ### 3. / 4. idempotence and the shape of the result -/

/-- rendering clean components and reading them back gives the same components -/
theorem components_render {cs : List (List Char)}
    (hcs : ∀ c ∈ cs, c ≠ [] ∧ c ≠ ['.'] ∧ c ≠ ['.', '.'] ∧ (∀ x ∈ c, x ≠ '/')) :
    normComponents (renderAbs cs) = some cs :=
  normComponents_renderAbs cs hcs

/-- the result is `renderAbs` of the components -/
theorem normalize_eq_render {s r : List Char} (h : normalizeAbsolutePath s = some r) :
    ∃ cs, normComponents s = some cs ∧ r = renderAbs cs := by
  unfold normalizeAbsolutePath at h
  cases hc : normComponents s with
  | none => rw [hc] at h; cases h
  | some cs =>
    rw [hc] at h
    simp only [Option.some.injEq] at h
    exact ⟨cs, rfl, h.symm⟩

/-- the components of the result are exactly the cleaned components of the input (so the result has no empty, `.` or `..`
segment apart from the leading one, by `components_clean`) -/
theorem normalize_no_dot_segments {s r : List Char} (h : normalizeAbsolutePath s = some r) :
    normComponents r = normComponents s := by
  obtain ⟨cs, hc, rfl⟩ := normalize_eq_render h
  rw [hc]
  exact normComponents_renderAbs cs (normComponents_clean s cs hc)

theorem normalize_idempotent {s r : List Char} (h : normalizeAbsolutePath s = some r) :
    normalizeAbsolutePath r = some r := by
  have h2 := normalize_no_dot_segments h
  obtain ⟨cs, hc, rfl⟩ := normalize_eq_render h
  unfold normalizeAbsolutePath
  rw [h2, hc]

theorem normalize_starts_with_slash {s r : List Char} (h : normalizeAbsolutePath s = some r) :
    r.head? = some '/' := by
  obtain ⟨cs, -, rfl⟩ := normalize_eq_render h
  exact renderAbs_head cs

/-- the segments of the result, literally: an empty one for the leading `/`, then the clean components
(`/` alone has the two empty segments around its slash) -/
theorem normalize_segments {s r : List Char} {cs : List (List Char)} (h : normalizeAbsolutePath s = some r)
    (hc : normComponents s = some cs) :
    splitSlash r = [] :: (if cs = [] then [[]] else cs) := by
  obtain ⟨cs', hc', rfl⟩ := normalize_eq_render h
  rw [hc] at hc'
  cases hc'
  exact splitSlash_renderAbs cs (fun c hcm => (normComponents_clean s cs hc c hcm).2.2.2)

/-- a normalised path never escapes, and `from_absolute_path` maps it to itself -/
theorem from_absolute_path_fixed {s r : List Char} (h : normalizeAbsolutePath s = some r)
    (hr : ∀ c ∈ r, c ≠ '#') : fromAbsolutePath r = .ok r none := by
  rw [no_fragment r hr (normalize_starts_with_slash h), normalize_idempotent h]

/-! ### 5. when `..` escapes the root -/

/-- a `..` segment -/
def isParent (c : List Char) : Bool := c == ['.', '.']
/-- a normal segment: neither empty nor `.` nor `..` -/
def isNormal (c : List Char) : Bool := !(c == [] || c == ['.'] || c == ['.', '.'])

private theorem exists_nat_succ (P : Nat → Prop) (h0 : ¬ P 0) : (∃ n, P n) ↔ ∃ m, P (m + 1) := by
  constructor
  · rintro ⟨n, hn⟩
    cases n with
    | zero => exact absurd hn h0
    | succ m => exact ⟨m, hn⟩
  · rintro ⟨m, hm⟩
    exact ⟨m + 1, hm⟩

/-- the walk from a stack of height `st.length` fails exactly when some prefix of the segments has more `..` than the
height plus its normal segments -/
theorem foldl_none_iff (l : List (List Char)) (st : List (List Char)) :
    l.foldl normStep (some st) = none ↔
      ∃ n, st.length + (l.take n).countP isNormal < (l.take n).countP isParent := by
  induction l generalizing st with
  | nil => simp
  | cons c l ih =>
    rw [List.foldl_cons, exists_nat_succ _ (by simp)]
    simp only [List.take_succ_cons, List.countP_cons]
    by_cases h1 : c = [] ∨ c = ['.']
    · rw [normStep_skip st c h1, ih st]
      have hn : isNormal c = false := by rcases h1 with rfl | rfl <;> decide
      have hp : isParent c = false := by rcases h1 with rfl | rfl <;> decide
      simp [hn, hp]
    · by_cases h2 : c = ['.', '.']
      · subst h2
        have hn : isNormal ['.', '.'] = false := by decide
        have hp : isParent ['.', '.'] = true := by decide
        simp only [hn, hp, if_true, Bool.false_eq_true, if_false, Nat.add_zero]
        cases st with
        | nil =>
          rw [normStep_parent_nil, foldl_normStep_none]
          simp only [true_iff]
          exact ⟨0, by simp⟩
        | cons a t =>
          rw [normStep_parent_cons, ih t]
          simp only [List.length_cons]
          constructor <;> rintro ⟨n, hn⟩ <;> exact ⟨n, by omega⟩
      · have hcl : c ≠ [] ∧ c ≠ ['.'] ∧ c ≠ ['.', '.'] := ⟨fun e => h1 (Or.inl e), fun e => h1 (Or.inr e), h2⟩
        have hn : isNormal c = true := by simp [isNormal, hcl.1, hcl.2.1, hcl.2.2]
        have hp : isParent c = false := by simp [isParent, h2]
        have hstep : normStep (some st) c = some (c :: st) := by
          simp [normStep, hcl.1, hcl.2.1, hcl.2.2]
        rw [hstep, ih (c :: st)]
        simp only [hn, hp, if_true, Bool.false_eq_true, if_false, Nat.add_zero, List.length_cons]
        constructor <;> rintro ⟨n, hn⟩ <;> exact ⟨n, by omega⟩

/-- the path escapes the root exactly when some prefix of its segments holds more `..` than normal segments -/
theorem escapes_iff (s : List Char) :
    normComponents s = none ↔
      ∃ n, ((splitSlash s).take n).countP isNormal < ((splitSlash s).take n).countP isParent := by
  have := foldl_none_iff (splitSlash s) []
  simp only [List.length_nil, Nat.zero_add] at this
  rw [← this]
  unfold normComponents
  cases (splitSlash s).foldl normStep (some []) <;> simp

theorem normalize_none_iff (s : List Char) :
    normalizeAbsolutePath s = none ↔
      ∃ n, ((splitSlash s).take n).countP isNormal < ((splitSlash s).take n).countP isParent := by
  rw [← escapes_iff]
  unfold normalizeAbsolutePath
  cases normComponents s <;> simp

/-! ### 6. empty and `.` segments never matter -/

theorem empty_segment_irrelevant (l₁ l₂ : List (List Char)) (st : Option (List (List Char))) :
    (l₁ ++ [] :: l₂).foldl normStep st = (l₁ ++ l₂).foldl normStep st := by
  simp only [List.foldl_append, List.foldl_cons, normStep_nil]

theorem dot_segment_irrelevant (l₁ l₂ : List (List Char)) (st : Option (List (List Char))) :
    (l₁ ++ ['.'] :: l₂).foldl normStep st = (l₁ ++ l₂).foldl normStep st := by
  simp only [List.foldl_append, List.foldl_cons, normStep_dot]

theorem slashes_and_dots_irrelevant (l₁ l₂ : List (List Char)) (st : Option (List (List Char))) :
    (l₁ ++ [] :: l₂).foldl normStep st = (l₁ ++ l₂).foldl normStep st ∧
    (l₁ ++ ['.'] :: l₂).foldl normStep st = (l₁ ++ l₂).foldl normStep st :=
  ⟨empty_segment_irrelevant l₁ l₂ st, dot_segment_irrelevant l₁ l₂ st⟩

/-- the same on texts: a doubled slash is one slash -/
theorem double_slash_irrelevant (a b : List Char) :
    normComponents (a ++ '/' :: '/' :: b) = normComponents (a ++ '/' :: b) := by
  unfold normComponents
  have e : splitSlash ('/' :: b) = [] :: splitSlash b := by
    rw [splitSlash]; simp
  rw [splitSlash_append_slash, splitSlash_append_slash a b, e, empty_segment_irrelevant]

/-- `/./` is one slash -/
theorem dot_irrelevant (a b : List Char) :
    normComponents (a ++ '/' :: '.' :: '/' :: b) = normComponents (a ++ '/' :: b) := by
  unfold normComponents
  have e : splitSlash ('.' :: '/' :: b) = ['.'] :: splitSlash b := by
    have := splitSlash_append_slash ['.'] b
    have h1 : splitSlash ['.'] = [['.']] := by decide
    simpa [h1] using this
  rw [splitSlash_append_slash, splitSlash_append_slash a b, e, dot_segment_irrelevant]

/-- a trailing slash changes nothing -/
theorem trailing_slash_irrelevant (a : List Char) :
    normComponents (a ++ ['/']) = normComponents a := by
  unfold normComponents
  rw [splitSlash_append_slash]
  have : splitSlash [] = [[]] := by simp [splitSlash]
  rw [this]
  have := empty_segment_irrelevant (splitSlash a) [] (some [])
  simp only [List.append_nil] at this
  rw [this]

theorem double_slash_irrelevant_path (a b : List Char) :
    normalizeAbsolutePath (a ++ '/' :: '/' :: b) = normalizeAbsolutePath (a ++ '/' :: b) := by
  unfold normalizeAbsolutePath; rw [double_slash_irrelevant]

theorem dot_irrelevant_path (a b : List Char) :
    normalizeAbsolutePath (a ++ '/' :: '.' :: '/' :: b) = normalizeAbsolutePath (a ++ '/' :: b) := by
  unfold normalizeAbsolutePath; rw [dot_irrelevant]

theorem trailing_slash_irrelevant_path (a : List Char) :
    normalizeAbsolutePath (a ++ ['/']) = normalizeAbsolutePath a := by
  unfold normalizeAbsolutePath; rw [trailing_slash_irrelevant]

/-! ### non-vacuity -/

example : fromAbsolutePath "/srv/pkg.tar.gz#subdirectory=a/../b".toList
    = .ok "/srv/pkg.tar.gz".toList (some "subdirectory=a/../b".toList) := by decide
example : fromAbsolutePath "/srv/a/../pkg#x#../..".toList = .ok "/srv/pkg".toList (some "x#../..".toList) := by decide
example : fromAbsolutePath "/a/../..".toList = .escapes := by decide
example : fromAbsolutePath "/a/../..#b".toList = .escapes := by decide
example : fromAbsolutePath "a/b".toList = .relative := by decide
example : fromAbsolutePath "#/a".toList = .relative := by decide
example : fromAbsolutePath "/".toList = .ok "/".toList none := by decide
example : normalizeAbsolutePath "/a//b/./c/../d/".toList = some "/a/b/d".toList := by decide
example : normalizeAbsolutePath "/a/b/../../..".toList = none := by decide
example : normalizeAbsolutePath "/..".toList = none := by decide
example : normalizeAbsolutePath "/a/..".toList = some "/".toList := by decide
example : normalizeAbsolutePath "/.../..a/.b".toList = some "/.../..a/.b".toList := by decide
example : normComponents "/a//b/./c/../d/".toList = some ["a".toList, "b".toList, "d".toList] := by decide
example : splitSlash "/a//b/".toList = [[], ['a'], [], ['b'], []] := by decide
-- `escapes_iff` at work: the prefix of 4 segments `["", "a", "..", ".."]` has one normal and two `..` segments
example : ((splitSlash "/a/../../b".toList).take 4).countP isNormal
    < ((splitSlash "/a/../../b".toList).take 4).countP isParent := by decide

end Pep508.C19

