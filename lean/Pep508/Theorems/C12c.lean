/-
C12 (third part) — the DIAGRAM identities of `simplify_python_versions` / `complexify_python_versions`
at the model's OWN value type.

C12 / C12b proved the identities of diagrams through canonicity (C03), which assumes a value order that
is dense without end points.  The model's value order `Val` is not (`C03.val_not_dense_unbounded`), so
those theorems cannot be instantiated at `MTree = Tree VarR VarB Val`, and `simplify_congr`,
`complexify_congr`, `simplify_eval_below/above`, `nonempty_iff_valid` are FALSE there
(`NonVacuityA.…_fails_at_Val`).  Here:

* (V1) `bounds_complexify`, `bounds_simplify`, `bounds_pyRangeMarker`: every bound of the result is a
  bound of the operand or one of `lo`, `hi`.
* (V2) the identities over ANY linear order, relative to a predicate `P` on values such that every
  valid interval with bounds in `P` is inhabited, for diagrams / ranges with bounds in `P`
  (`…_rel`); `P := True` over a dense order gives back C12 / C12b (`…_of_dense`).
* (V3) the instances at `Val` with `P := SepV` (`…_val`), and the proof that the separation
  hypotheses of the congruences cannot be dropped (`…_needs_…`).
* (V4) see the end of the file: `complexify_eq_and`, `complexify_simplify`, `simplify_complexify`,
  `simplify_idem` hold UNCONDITIONALLY (no density, no separation), over every linear order.
-/
import Pep508.Proofs.PyRel
import Pep508.Proofs.Transfer
import Pep508.Proofs.ValDense
import Pep508.Theorems.C12b
import Pep508.Theorems.C03b
import Pep508.Theorems.NonVacuityA
set_option linter.unusedSectionVars false
namespace Pep508.C12
open Pep508

section Generic
variable {νr νb α : Type}
variable [LT α] [LE α] [Std.IsLinearOrder α] [Std.LawfulOrderLT α] [DecidableLT α] [DecidableEq α]
variable [LT νr] [LE νr] [Std.IsLinearOrder νr] [Std.LawfulOrderLT νr] [DecidableLT νr] [DecidableEq νr]
variable [LT νb] [LE νb] [Std.IsLinearOrder νb] [Std.LawfulOrderLT νb] [DecidableLT νb] [DecidableEq νb]

/-! ### (V1) bound tracking -/

/-- every bound of `complexify(m, (lo, hi))` is a bound of `m`, or `lo`, or `hi` -/
theorem bounds_complexify (P : α → Prop) (pv : νr) (lo hi : Bnd α) (hlo : Bnd.Kind P lo)
    (hhi : Bnd.Kind P hi) (m : Tree νr νb α) (bm : m.AllB P) : (m.complexifyPy pv lo hi).AllB P :=
  Tree.AllB_complexifyPy P pv lo hi hlo hhi m bm

/-- every bound of `simplify(m, (lo, hi))` is a bound of `m`, or `lo`, or `hi` -/
theorem bounds_simplify (P : α → Prop) (pv : νr) (lo hi : Bnd α) (hlo : Bnd.Kind P lo)
    (hhi : Bnd.Kind P hi) (m : Tree νr νb α) (bm : m.AllB P) : (m.simplifyPy pv lo hi).AllB P :=
  Tree.AllB_simplifyPy P pv lo hi hlo hhi m bm

/-- the bounds of `python_full_version in (lo, hi)` are `lo` and `hi` -/
theorem bounds_pyRangeMarker (P : α → Prop) (pv : νr) (lo hi : Bnd α) (hlo : Bnd.Kind P lo)
    (hhi : Bnd.Kind P hi) : (pyRangeMarker pv lo hi : Tree νr νb α).AllB P :=
  AllB_pyRangeMarker P pv lo hi hlo hhi

/-! ### (V2) the identities relative to `P`

`inh` is the hypothesis of `C03.canonical_relative`: every valid interval whose bounds satisfy `P`
contains a value. -/

/-- with bounds in `P`, the model's validity test is exactly non-emptiness -/
theorem nonempty_iff_valid_rel (P : α → Prop)
    (inh : ∀ iv : Ivl α, iv.valid = true → Ivl.Kind P iv → ∃ a, iv.mem a = true)
    (lo hi : Bnd α) (hlo : Bnd.Kind P lo) (hhi : Bnd.Kind P hi) :
    (∃ x, (Ivl.mk lo hi).mem x = true) ↔ (Ivl.mk lo hi).valid = true :=
  ⟨fun ⟨x, hx⟩ => Ivl.valid_of_mem _ x hx, fun hv => inh _ hv ⟨hlo, hhi⟩⟩

/-- **identity of complexify** -/
theorem complexify_eq_and_rel [Inhabited α] (P : α → Prop)
    (inh : ∀ iv : Ivl α, iv.valid = true → Ivl.Kind P iv → ∃ a, iv.mem a = true)
    (pv : νr) (lo hi : Bnd α) (hlo : Bnd.Kind P lo) (hhi : Bnd.Kind P hi)
    (m : Tree νr νb α) (hm : m.wf = true) (bm : m.AllB P) :
    m.complexifyPy pv lo hi = Tree.and m (pyRangeMarker pv lo hi) :=
  complexifyPy_eq_and_rel P inh pv lo hi hlo hhi m hm bm

/-- `complexify(simplify(m, R), R) = complexify(m, R)` -/
theorem complexify_simplify_rel [Inhabited α] (P : α → Prop)
    (inh : ∀ iv : Ivl α, iv.valid = true → Ivl.Kind P iv → ∃ a, iv.mem a = true)
    (pv : νr) (lo hi : Bnd α) (hlo : Bnd.Kind P lo) (hhi : Bnd.Kind P hi)
    (m : Tree νr νb α) (hm : m.wf = true) (bm : m.AllB P) :
    (m.simplifyPy pv lo hi).complexifyPy pv lo hi = m.complexifyPy pv lo hi :=
  complexifyPy_simplifyPy_rel P inh pv lo hi hlo hhi m hm bm

/-- markers that agree inside `R` complexify to the same marker (every `R` with bounds in `P`) -/
theorem complexify_congr_rel [Inhabited α] (P : α → Prop)
    (inh : ∀ iv : Ivl α, iv.valid = true → Ivl.Kind P iv → ∃ a, iv.mem a = true)
    (pv : νr) (lo hi : Bnd α) (hlo : Bnd.Kind P lo) (hhi : Bnd.Kind P hi)
    (m₁ m₂ : Tree νr νb α) (h₁ : m₁.wf = true) (h₂ : m₂.wf = true)
    (b₁ : m₁.AllB P) (b₂ : m₂.AllB P)
    (hag : ∀ ρ : Env νr νb α, (Ivl.mk lo hi).mem (ρ.rv pv) = true → m₁.eval ρ = m₂.eval ρ) :
    m₁.complexifyPy pv lo hi = m₂.complexifyPy pv lo hi :=
  complexifyPy_congr_rel P inh pv lo hi hlo hhi m₁ m₂ h₁ h₂ b₁ b₂ hag

/-- **below the range**: the witness `a` is a point of (first overlapping edge) ∩ `R` -/
theorem simplify_eval_below_rel (P : α → Prop)
    (inh : ∀ iv : Ivl α, iv.valid = true → Ivl.Kind P iv → ∃ a, iv.mem a = true)
    (pv : νr) (lo hi : Bnd α) (hlo : Bnd.Kind P lo) (hhi : Bnd.Kind P hi)
    (hv : (Ivl.mk lo hi).valid = true) (m : Tree νr νb α) (hm : m.wf = true) (bm : m.AllB P)
    (ρ : Env νr νb α) (hout : lo.loOk (ρ.rv pv) = false) :
    ∃ a, (Ivl.mk lo hi).mem a = true ∧ ∀ x, (Ivl.mk lo hi).mem x = true → ¬ a < x →
      (m.simplifyPy pv lo hi).eval ρ = m.eval (ρ.setR pv x) :=
  simplify_witness_low_rel P inh pv lo hi hlo hhi hv m hm bm ρ hout

/-- **above the range**: the witness `a` is a point of (last overlapping edge) ∩ `R` -/
theorem simplify_eval_above_rel (P : α → Prop)
    (inh : ∀ iv : Ivl α, iv.valid = true → Ivl.Kind P iv → ∃ a, iv.mem a = true)
    (pv : νr) (lo hi : Bnd α) (hlo : Bnd.Kind P lo) (hhi : Bnd.Kind P hi)
    (hv : (Ivl.mk lo hi).valid = true) (m : Tree νr νb α) (hm : m.wf = true) (bm : m.AllB P)
    (ρ : Env νr νb α) (hout : hi.hiOk (ρ.rv pv) = false) :
    ∃ a, (Ivl.mk lo hi).mem a = true ∧ ∀ x, (Ivl.mk lo hi).mem x = true → ¬ x < a →
      (m.simplifyPy pv lo hi).eval ρ = m.eval (ρ.setR pv x) :=
  simplify_witness_high_rel P inh pv lo hi hlo hhi hv m hm bm ρ hout

/-- **(T1)** markers with bounds in `P` that agree inside a range `R` which is valid and has bounds
    in `P` (hence is non-empty) simplify to the SAME marker -/
theorem simplify_congr_rel [Inhabited α] (P : α → Prop)
    (inh : ∀ iv : Ivl α, iv.valid = true → Ivl.Kind P iv → ∃ a, iv.mem a = true)
    (pv : νr) (lo hi : Bnd α) (hlo : Bnd.Kind P lo) (hhi : Bnd.Kind P hi)
    (hv : (Ivl.mk lo hi).valid = true)
    (m₁ m₂ : Tree νr νb α) (h₁ : m₁.wf = true) (h₂ : m₂.wf = true)
    (b₁ : m₁.AllB P) (b₂ : m₂.AllB P)
    (hag : ∀ ρ : Env νr νb α, (Ivl.mk lo hi).mem (ρ.rv pv) = true → m₁.eval ρ = m₂.eval ρ) :
    m₁.simplifyPy pv lo hi = m₂.simplifyPy pv lo hi :=
  simplifyPy_congr_rel P inh pv lo hi hlo hhi hv m₁ m₂ h₁ h₂ b₁ b₂ hag

/-- (T1) with non-emptiness stated as a point of `R` (the bounds of `R` must still be in `P`: they
    become bounds of the result) -/
theorem simplify_congr_of_mem_rel [Inhabited α] (P : α → Prop)
    (inh : ∀ iv : Ivl α, iv.valid = true → Ivl.Kind P iv → ∃ a, iv.mem a = true)
    (pv : νr) (lo hi : Bnd α) (hlo : Bnd.Kind P lo) (hhi : Bnd.Kind P hi)
    (hne : ∃ x, (Ivl.mk lo hi).mem x = true)
    (m₁ m₂ : Tree νr νb α) (h₁ : m₁.wf = true) (h₂ : m₂.wf = true)
    (b₁ : m₁.AllB P) (b₂ : m₂.AllB P)
    (hag : ∀ ρ : Env νr νb α, (Ivl.mk lo hi).mem (ρ.rv pv) = true → m₁.eval ρ = m₂.eval ρ) :
    m₁.simplifyPy pv lo hi = m₂.simplifyPy pv lo hi :=
  simplify_congr_rel P inh pv lo hi hlo hhi
    ((nonempty_iff_valid_rel P inh lo hi hlo hhi).1 hne) m₁ m₂ h₁ h₂ b₁ b₂ hag

/-- (T1) as an equivalence -/
theorem simplify_eq_iff_rel [Inhabited α] (P : α → Prop)
    (inh : ∀ iv : Ivl α, iv.valid = true → Ivl.Kind P iv → ∃ a, iv.mem a = true)
    (pv : νr) (lo hi : Bnd α) (hlo : Bnd.Kind P lo) (hhi : Bnd.Kind P hi)
    (hv : (Ivl.mk lo hi).valid = true)
    (m₁ m₂ : Tree νr νb α) (h₁ : m₁.wf = true) (h₂ : m₂.wf = true)
    (b₁ : m₁.AllB P) (b₂ : m₂.AllB P) :
    m₁.simplifyPy pv lo hi = m₂.simplifyPy pv lo hi ↔
      ∀ ρ : Env νr νb α, (Ivl.mk lo hi).mem (ρ.rv pv) = true → m₁.eval ρ = m₂.eval ρ :=
  ⟨fun h ρ hin => agree_of_simplify_eq pv lo hi m₁ m₂ h₁ h₂ h ρ hin,
    simplify_congr_rel P inh pv lo hi hlo hhi hv m₁ m₂ h₁ h₂ b₁ b₂⟩

/-- **(T2)** `simplify(complexify(m, R), R) = simplify(m, R)` for valid `R` -/
theorem simplify_complexify_rel [Inhabited α] (P : α → Prop)
    (inh : ∀ iv : Ivl α, iv.valid = true → Ivl.Kind P iv → ∃ a, iv.mem a = true)
    (pv : νr) (lo hi : Bnd α) (hlo : Bnd.Kind P lo) (hhi : Bnd.Kind P hi)
    (hv : (Ivl.mk lo hi).valid = true) (m : Tree νr νb α) (hm : m.wf = true) (bm : m.AllB P) :
    (m.complexifyPy pv lo hi).simplifyPy pv lo hi = m.simplifyPy pv lo hi :=
  simplifyPy_complexifyPy_rel P inh pv lo hi hlo hhi hv m hm bm

/-- **(T4)** `simplify` is idempotent, for every pair of bounds in `P` -/
theorem simplify_idem_rel [Inhabited α] (P : α → Prop)
    (inh : ∀ iv : Ivl α, iv.valid = true → Ivl.Kind P iv → ∃ a, iv.mem a = true)
    (pv : νr) (lo hi : Bnd α) (hlo : Bnd.Kind P lo) (hhi : Bnd.Kind P hi)
    (m : Tree νr νb α) (hm : m.wf = true) (bm : m.AllB P) :
    (m.simplifyPy pv lo hi).simplifyPy pv lo hi = m.simplifyPy pv lo hi :=
  simplifyPy_idem_rel P inh pv lo hi hlo hhi m hm bm

/-! ### `P := True` over a dense order: C12 / C12b are instances -/

/-- C12b's (T1) is the instance `P := True` (every diagram has its bounds in `True`, and a dense
    order without end points inhabits every valid interval) -/
theorem simplify_congr_of_dense [DenseUnbounded α] [Inhabited α] (pv : νr) (lo hi : Bnd α)
    (hv : (Ivl.mk lo hi).valid = true)
    (m₁ m₂ : Tree νr νb α) (h₁ : m₁.wf = true) (h₂ : m₂.wf = true)
    (hag : ∀ ρ : Env νr νb α, (Ivl.mk lo hi).mem (ρ.rv pv) = true → m₁.eval ρ = m₂.eval ρ) :
    m₁.simplifyPy pv lo hi = m₂.simplifyPy pv lo hi :=
  simplify_congr_rel (fun _ => True) inhabits_of_dense pv lo hi (Bnd.Kind_true lo) (Bnd.Kind_true hi)
    hv m₁ m₂ h₁ h₂ (Tree.AllB_true m₁) (Tree.AllB_true m₂) hag

/-- likewise C12's `complexify_congr` -/
theorem complexify_congr_of_dense [DenseUnbounded α] [Inhabited α] (pv : νr) (lo hi : Bnd α)
    (m₁ m₂ : Tree νr νb α) (h₁ : m₁.wf = true) (h₂ : m₂.wf = true)
    (hag : ∀ ρ : Env νr νb α, (Ivl.mk lo hi).mem (ρ.rv pv) = true → m₁.eval ρ = m₂.eval ρ) :
    m₁.complexifyPy pv lo hi = m₂.complexifyPy pv lo hi :=
  complexify_congr_rel (fun _ => True) inhabits_of_dense pv lo hi (Bnd.Kind_true lo)
    (Bnd.Kind_true hi) m₁ m₂ h₁ h₂ (Tree.AllB_true m₁) (Tree.AllB_true m₂) hag

end Generic
/-! ### (V3) at the model's value type: `P := SepV`

`SepV (.ver w) ↔ w ≠ [] ∧ w.getLast? ≠ some 0`, `SepV (.str s) ↔ s` does not end in U+0000. -/
section AtVal

theorem nonempty_iff_valid_val (lo hi : Bnd Val) (hlo : Bnd.Kind SepV lo) (hhi : Bnd.Kind SepV hi) :
    (∃ x, (Ivl.mk lo hi).mem x = true) ↔ (Ivl.mk lo hi).valid = true :=
  nonempty_iff_valid_rel SepV inhabits_sep lo hi hlo hhi

theorem bounds_complexify_val (pv : VarR) (lo hi : Bnd Val) (hlo : Bnd.Kind SepV lo)
    (hhi : Bnd.Kind SepV hi) (m : MTree) (bm : m.AllB SepV) : (m.complexifyPy pv lo hi).AllB SepV :=
  bounds_complexify SepV pv lo hi hlo hhi m bm

theorem bounds_simplify_val (pv : VarR) (lo hi : Bnd Val) (hlo : Bnd.Kind SepV lo)
    (hhi : Bnd.Kind SepV hi) (m : MTree) (bm : m.AllB SepV) : (m.simplifyPy pv lo hi).AllB SepV :=
  bounds_simplify SepV pv lo hi hlo hhi m bm

theorem complexify_eq_and_val (pv : VarR) (lo hi : Bnd Val) (hlo : Bnd.Kind SepV lo)
    (hhi : Bnd.Kind SepV hi) (m : MTree) (hm : m.wf = true) (bm : m.AllB SepV) :
    m.complexifyPy pv lo hi = Tree.and m (pyRangeMarker pv lo hi) :=
  complexify_eq_and_rel SepV inhabits_sep pv lo hi hlo hhi m hm bm

theorem complexify_simplify_val (pv : VarR) (lo hi : Bnd Val) (hlo : Bnd.Kind SepV lo)
    (hhi : Bnd.Kind SepV hi) (m : MTree) (hm : m.wf = true) (bm : m.AllB SepV) :
    (m.simplifyPy pv lo hi).complexifyPy pv lo hi = m.complexifyPy pv lo hi :=
  complexify_simplify_rel SepV inhabits_sep pv lo hi hlo hhi m hm bm

theorem complexify_congr_val (pv : VarR) (lo hi : Bnd Val) (hlo : Bnd.Kind SepV lo)
    (hhi : Bnd.Kind SepV hi) (m₁ m₂ : MTree) (h₁ : m₁.wf = true) (h₂ : m₂.wf = true)
    (b₁ : m₁.AllB SepV) (b₂ : m₂.AllB SepV)
    (hag : ∀ ρ : Env VarR VarB Val, (Ivl.mk lo hi).mem (ρ.rv pv) = true → m₁.eval ρ = m₂.eval ρ) :
    m₁.complexifyPy pv lo hi = m₂.complexifyPy pv lo hi :=
  complexify_congr_rel SepV inhabits_sep pv lo hi hlo hhi m₁ m₂ h₁ h₂ b₁ b₂ hag

theorem simplify_eval_below_val (pv : VarR) (lo hi : Bnd Val) (hlo : Bnd.Kind SepV lo)
    (hhi : Bnd.Kind SepV hi) (hv : (Ivl.mk lo hi).valid = true) (m : MTree) (hm : m.wf = true)
    (bm : m.AllB SepV) (ρ : Env VarR VarB Val) (hout : lo.loOk (ρ.rv pv) = false) :
    ∃ a, (Ivl.mk lo hi).mem a = true ∧ ∀ x, (Ivl.mk lo hi).mem x = true → ¬ a < x →
      (m.simplifyPy pv lo hi).eval ρ = m.eval (ρ.setR pv x) :=
  simplify_eval_below_rel SepV inhabits_sep pv lo hi hlo hhi hv m hm bm ρ hout

theorem simplify_eval_above_val (pv : VarR) (lo hi : Bnd Val) (hlo : Bnd.Kind SepV lo)
    (hhi : Bnd.Kind SepV hi) (hv : (Ivl.mk lo hi).valid = true) (m : MTree) (hm : m.wf = true)
    (bm : m.AllB SepV) (ρ : Env VarR VarB Val) (hout : hi.hiOk (ρ.rv pv) = false) :
    ∃ a, (Ivl.mk lo hi).mem a = true ∧ ∀ x, (Ivl.mk lo hi).mem x = true → ¬ x < a →
      (m.simplifyPy pv lo hi).eval ρ = m.eval (ρ.setR pv x) :=
  simplify_eval_above_rel SepV inhabits_sep pv lo hi hlo hhi hv m hm bm ρ hout

theorem simplify_congr_val (pv : VarR) (lo hi : Bnd Val) (hlo : Bnd.Kind SepV lo)
    (hhi : Bnd.Kind SepV hi) (hv : (Ivl.mk lo hi).valid = true)
    (m₁ m₂ : MTree) (h₁ : m₁.wf = true) (h₂ : m₂.wf = true)
    (b₁ : m₁.AllB SepV) (b₂ : m₂.AllB SepV)
    (hag : ∀ ρ : Env VarR VarB Val, (Ivl.mk lo hi).mem (ρ.rv pv) = true → m₁.eval ρ = m₂.eval ρ) :
    m₁.simplifyPy pv lo hi = m₂.simplifyPy pv lo hi :=
  simplify_congr_rel SepV inhabits_sep pv lo hi hlo hhi hv m₁ m₂ h₁ h₂ b₁ b₂ hag

theorem simplify_congr_of_mem_val (pv : VarR) (lo hi : Bnd Val) (hlo : Bnd.Kind SepV lo)
    (hhi : Bnd.Kind SepV hi) (hne : ∃ x, (Ivl.mk lo hi).mem x = true)
    (m₁ m₂ : MTree) (h₁ : m₁.wf = true) (h₂ : m₂.wf = true)
    (b₁ : m₁.AllB SepV) (b₂ : m₂.AllB SepV)
    (hag : ∀ ρ : Env VarR VarB Val, (Ivl.mk lo hi).mem (ρ.rv pv) = true → m₁.eval ρ = m₂.eval ρ) :
    m₁.simplifyPy pv lo hi = m₂.simplifyPy pv lo hi :=
  simplify_congr_of_mem_rel SepV inhabits_sep pv lo hi hlo hhi hne m₁ m₂ h₁ h₂ b₁ b₂ hag

theorem simplify_eq_iff_val (pv : VarR) (lo hi : Bnd Val) (hlo : Bnd.Kind SepV lo)
    (hhi : Bnd.Kind SepV hi) (hv : (Ivl.mk lo hi).valid = true)
    (m₁ m₂ : MTree) (h₁ : m₁.wf = true) (h₂ : m₂.wf = true)
    (b₁ : m₁.AllB SepV) (b₂ : m₂.AllB SepV) :
    m₁.simplifyPy pv lo hi = m₂.simplifyPy pv lo hi ↔
      ∀ ρ : Env VarR VarB Val, (Ivl.mk lo hi).mem (ρ.rv pv) = true → m₁.eval ρ = m₂.eval ρ :=
  simplify_eq_iff_rel SepV inhabits_sep pv lo hi hlo hhi hv m₁ m₂ h₁ h₂ b₁ b₂

theorem simplify_complexify_val (pv : VarR) (lo hi : Bnd Val) (hlo : Bnd.Kind SepV lo)
    (hhi : Bnd.Kind SepV hi) (hv : (Ivl.mk lo hi).valid = true) (m : MTree) (hm : m.wf = true)
    (bm : m.AllB SepV) :
    (m.complexifyPy pv lo hi).simplifyPy pv lo hi = m.simplifyPy pv lo hi :=
  simplify_complexify_rel SepV inhabits_sep pv lo hi hlo hhi hv m hm bm

theorem simplify_idem_val (pv : VarR) (lo hi : Bnd Val) (hlo : Bnd.Kind SepV lo)
    (hhi : Bnd.Kind SepV hi) (m : MTree) (hm : m.wf = true) (bm : m.AllB SepV) :
    (m.simplifyPy pv lo hi).simplifyPy pv lo hi = m.simplifyPy pv lo hi :=
  simplify_idem_rel SepV inhabits_sep pv lo hi hlo hhi m hm bm

/-! #### the separation hypotheses of the congruences cannot be dropped -/

open NonVacuityA in
/-- `python_full_version < '0'` has the non-separated bound `0` -/
theorem belowZero_not_separated : ¬ belowZero.AllB SepV := by
  intro h
  simp only [belowZero, Tree.AllB, Edges.AllB, Ivl.Kind, Bnd.Kind, SepV] at h
  exact h.1.2.1 rfl

open NonVacuityA in
/-- **`simplify_congr_val` without `b₁`** is false: `R = (-∞, 1)` is valid, separated and
    non-empty, `python_full_version < '0'` and FALSE are well-formed and agree EVERYWHERE, FALSE has
    (vacuously) separated bounds, and the simplifications differ -/
theorem simplify_congr_val_needs_sep_marker :
    ∃ (pv : VarR) (lo hi : Bnd Val) (m₁ m₂ : MTree),
      Bnd.Kind SepV lo ∧ Bnd.Kind SepV hi ∧ (Ivl.mk lo hi).valid = true ∧
      m₁.wf = true ∧ m₂.wf = true ∧ m₂.AllB SepV ∧
      (∀ ρ : Env VarR VarB Val, m₁.eval ρ = m₂.eval ρ) ∧
      m₁.simplifyPy pv lo hi ≠ m₂.simplifyPy pv lo hi :=
  ⟨.ver .pfv, .unb, .excl (.ver [1]), belowZero, .leaf false, trivial,
    ⟨by decide, by decide⟩, rfl, belowZero_wf, rfl, trivial,
    fun ρ => by rw [belowZero_eval]; rfl, simplify_congr_fails_at_Val.2.2.2.2⟩

open NonVacuityA in
/-- the same for `complexify_congr_val` -/
theorem complexify_congr_val_needs_sep_marker :
    ∃ (pv : VarR) (lo hi : Bnd Val) (m₁ m₂ : MTree),
      Bnd.Kind SepV lo ∧ Bnd.Kind SepV hi ∧
      m₁.wf = true ∧ m₂.wf = true ∧ m₂.AllB SepV ∧
      (∀ ρ : Env VarR VarB Val, m₁.eval ρ = m₂.eval ρ) ∧
      m₁.complexifyPy pv lo hi ≠ m₂.complexifyPy pv lo hi :=
  ⟨.ver .pfv, .unb, .excl (.ver [1]), belowZero, .leaf false, trivial,
    ⟨by decide, by decide⟩, belowZero_wf, rfl, trivial,
    fun ρ => by rw [belowZero_eval]; rfl, complexify_congr_fails_at_Val.2.2⟩

/-- the range `python_full_version < '0'`: valid, not separated, EMPTY -/
theorem below_zero_range_empty (x : Val) : (Ivl.mk Bnd.unb (.excl (Val.ver []))).mem x = false := by
  have := NonVacuityA.Val.ver_nil_least x
  simp [Ivl.mem, Bnd.loOk, Bnd.hiOk, this]

/-- **`simplify_congr_val` without `hhi`** is false: for the valid range `(-∞, 0)` the terminals
    TRUE and FALSE (no bounds at all) agree inside it and keep their different simplifications -/
theorem simplify_congr_val_needs_sep_range :
    ∃ (pv : VarR) (lo hi : Bnd Val) (m₁ m₂ : MTree),
      Bnd.Kind SepV lo ∧ (Ivl.mk lo hi).valid = true ∧
      m₁.wf = true ∧ m₂.wf = true ∧ m₁.AllB SepV ∧ m₂.AllB SepV ∧
      (∀ ρ : Env VarR VarB Val, (Ivl.mk lo hi).mem (ρ.rv pv) = true → m₁.eval ρ = m₂.eval ρ) ∧
      m₁.simplifyPy pv lo hi ≠ m₂.simplifyPy pv lo hi := by
  refine ⟨.ver .pfv, .unb, .excl (.ver []), .leaf true, .leaf false, trivial, rfl, rfl, rfl, trivial,
    trivial, ?_, by decide⟩
  intro ρ h
  rw [below_zero_range_empty] at h; cases h

/-- the same for `complexify_congr_val`: `complexify(TRUE, (-∞, 0))` is the two-edge node
    `python_full_version < '0'`, `complexify(FALSE, …)` is FALSE -/
theorem complexify_congr_val_needs_sep_range :
    ∃ (pv : VarR) (lo hi : Bnd Val) (m₁ m₂ : MTree),
      Bnd.Kind SepV lo ∧ (Ivl.mk lo hi).valid = true ∧
      m₁.wf = true ∧ m₂.wf = true ∧ m₁.AllB SepV ∧ m₂.AllB SepV ∧
      (∀ ρ : Env VarR VarB Val, (Ivl.mk lo hi).mem (ρ.rv pv) = true → m₁.eval ρ = m₂.eval ρ) ∧
      m₁.complexifyPy pv lo hi ≠ m₂.complexifyPy pv lo hi := by
  refine ⟨.ver .pfv, .unb, .excl (.ver []), .leaf true, .leaf false, trivial, rfl, rfl, rfl, trivial,
    trivial, ?_, by decide⟩
  intro ρ h
  rw [below_zero_range_empty] at h; cases h

/-- **`simplify_eval_below_val` / `_above_val` without `hhi`**: `R = ((1), (1, 0))` is valid, its upper
    bound ends in a zero segment, and `R` has no point at all (`NonVacuityA.Val.gap`) -/
theorem simplify_eval_outside_val_needs_sep_range :
    Bnd.Kind SepV (Bnd.excl (Val.ver [1])) ∧ ¬ Bnd.Kind SepV (Bnd.excl (Val.ver [1, 0])) ∧
    (Ivl.mk (Bnd.excl (Val.ver [1])) (.excl (.ver [1, 0]))).valid = true ∧
    ¬ ∃ a, (Ivl.mk (Bnd.excl (Val.ver [1])) (.excl (.ver [1, 0]))).mem a = true := by
  refine ⟨⟨by decide, by decide⟩, fun h => h.2 rfl, by decide, ?_⟩
  rintro ⟨a, ha⟩
  simp only [Ivl.mem, Bnd.loOk, Bnd.hiOk, Bool.and_eq_true, decide_eq_true_eq] at ha
  exact NonVacuityA.Val.gap a ha

end AtVal

/-! ### (V4) the four identities without semantic hypotheses are UNCONDITIONAL

`complexify_eq_and`, `complexify_simplify`, `simplify_complexify`, `simplify_idem` have only
syntactic hypotheses (`wf`, `valid`).  All operations involved only compare bound values, so they
commute with relabelling the bounds along an order embedding (`Proofs/Transfer.lean`), and every
linear order embeds into a dense one without end points (`α × ℚ`, lexicographic).  Hence the C12 /
C12b identities transfer to EVERY linear order: no density, no separation, no `Inhabited`.  (The
congruences have a semantic hypothesis — agreement in all environments OF THE GIVEN ORDER — which
does not transfer; they are really false without separation, see above.) -/
section Unconditional
variable {νr νb α : Type}
variable [LT α] [LE α] [Std.IsLinearOrder α] [Std.LawfulOrderLT α] [DecidableLT α] [DecidableEq α]
variable [LT νr] [LE νr] [Std.IsLinearOrder νr] [Std.LawfulOrderLT νr] [DecidableLT νr] [DecidableEq νr]
variable [LT νb] [LE νb] [Std.IsLinearOrder νb] [Std.LawfulOrderLT νb] [DecidableLT νb] [DecidableEq νb]

/-- **identity of complexify, unconditional** -/
theorem complexify_eq_and_all (pv : νr) (lo hi : Bnd α) (m : Tree νr νb α) (hm : m.wf = true) :
    m.complexifyPy pv lo hi = Tree.and m (pyRangeMarker pv lo hi) :=
  complexifyPy_eq_and_all pv lo hi m hm

/-- **`complexify(simplify(m, R), R) = complexify(m, R)`, unconditional** -/
theorem complexify_simplify_all (pv : νr) (lo hi : Bnd α) (m : Tree νr νb α) (hm : m.wf = true) :
    (m.simplifyPy pv lo hi).complexifyPy pv lo hi = m.complexifyPy pv lo hi :=
  complexifyPy_simplifyPy_all pv lo hi m hm

/-- **(T2) `simplify(complexify(m, R), R) = simplify(m, R)` for every VALID `R`, unconditional**
    (for an invalid `R` it is false: `simplify_complexify_empty_false`) -/
theorem simplify_complexify_all (pv : νr) (lo hi : Bnd α) (hv : (Ivl.mk lo hi).valid = true)
    (m : Tree νr νb α) (hm : m.wf = true) :
    (m.complexifyPy pv lo hi).simplifyPy pv lo hi = m.simplifyPy pv lo hi :=
  simplifyPy_complexifyPy_all pv lo hi hv m hm

/-- **(T4) `simplify` is idempotent, unconditional** (every pair of bounds) -/
theorem simplify_idem_uncond (pv : νr) (lo hi : Bnd α) (m : Tree νr νb α) (hm : m.wf = true) :
    (m.simplifyPy pv lo hi).simplifyPy pv lo hi = m.simplifyPy pv lo hi :=
  simplifyPy_idem_uncond pv lo hi m hm

end Unconditional

/-! ### (V6) non-vacuity at `Val` -/
section NonVacuity

/-- `python_full_version >= '3.8'`, built by the model's `expression` -/
def exGe38 : MTree := expression (.version .pfv ⟨.ge, [3, 8]⟩)
/-- `os_name == 'a'` -/
def exS : MTree := expression (.string ⟨1⟩ .eq "a")
/-- `python_full_version >= '3.8' and os_name == 'a'` -/
def exM : MTree := Tree.and exGe38 exS

/-- requires-python `>= 3.9, < 3.12` -/
def exLo : Bnd Val := .incl (.ver [3, 9])
def exHi : Bnd Val := .excl (.ver [3, 12])
abbrev pfv : VarR := .ver .pfv

theorem exGe38_eq : exGe38 = .rng (.ver .pfv) (.cons ⟨.unb, .excl (.ver [3, 8])⟩ (.leaf false)
    (.cons ⟨.incl (.ver [3, 8]), .unb⟩ (.leaf true) .nil)) := by decide
theorem exS_eq : exS = .rng (.str ⟨1⟩) (.cons ⟨.unb, .excl (.str "a")⟩ (.leaf false)
    (.cons ⟨.incl (.str "a"), .incl (.str "a")⟩ (.leaf true)
      (.cons ⟨.excl (.str "a"), .unb⟩ (.leaf false) .nil))) := by decide

theorem exGe38_wf : exGe38.wf = true := by decide
theorem exS_wf : exS.wf = true := by decide
theorem exM_wf : exM.wf = true := by decide

theorem exGe38_sep : exGe38.AllB SepV := by
  rw [exGe38_eq]; simp [Tree.AllB, Edges.AllB, Ivl.Kind, Bnd.Kind, SepV]
theorem exS_sep : exS.AllB SepV := by
  rw [exS_eq]
  simp only [Tree.AllB, Edges.AllB, Ivl.Kind, Bnd.Kind, SepV, and_true, true_and, and_self]
  decide
theorem exM_sep : exM.AllB SepV := C03.bounds_and SepV _ _ exGe38_sep exS_sep
theorem exLo_sep : Bnd.Kind SepV exLo := ⟨by decide, by decide⟩
theorem exHi_sep : Bnd.Kind SepV exHi := ⟨by decide, by decide⟩
theorem exR_valid : (Ivl.mk exLo exHi).valid = true := by decide

/-- inside `[3.9, 3.12)` the marker `python_full_version >= '3.8' and os_name == 'a'` is `os_name == 'a'` -/
theorem exM_agree : ∀ ρ : Env VarR VarB Val, (Ivl.mk exLo exHi).mem (ρ.rv pfv) = true →
    exM.eval ρ = exS.eval ρ := by
  intro ρ h
  rw [exM, C02.eval_and_of_wf ρ _ _ exGe38_wf exS_wf]
  have : exGe38.eval ρ = true := by
    rw [exGe38_eq]
    simp only [exLo, exHi, Tree.eval, Edges.eval, Ivl.mem, Bnd.loOk, Bnd.hiOk, Bool.and_eq_true,
      Bool.not_eq_true', decide_eq_false_iff_not, decide_eq_true_eq] at h ⊢
    have h38 : Val.ver [3, 8] < Val.ver [3, 9] := by decide
    have hn : ¬ ρ.rv pfv < Val.ver [3, 8] := by
      intro hlt
      exact h.1 (Val.lt_trans _ _ _ hlt h38)
    simp [hn]
  rw [this, Bool.true_and]

/-- an environment below the range (`python_full_version = 0`) and one above (`= 4`) -/
def ρBelow : Env VarR VarB Val := ⟨fun _ => .ver [], fun _ => false⟩
def ρAbove : Env VarR VarB Val := ⟨fun _ => .ver [4], fun _ => false⟩

theorem nv_bounds_complexify_val : (exM.complexifyPy pfv exLo exHi).AllB SepV :=
  bounds_complexify_val pfv exLo exHi exLo_sep exHi_sep exM exM_sep
theorem nv_bounds_simplify_val : (exM.simplifyPy pfv exLo exHi).AllB SepV :=
  bounds_simplify_val pfv exLo exHi exLo_sep exHi_sep exM exM_sep
theorem nv_nonempty_iff_valid_val :
    (∃ x, (Ivl.mk exLo exHi).mem x = true) ↔ (Ivl.mk exLo exHi).valid = true :=
  nonempty_iff_valid_val exLo exHi exLo_sep exHi_sep
theorem nv_complexify_eq_and_val :
    exM.complexifyPy pfv exLo exHi = Tree.and exM (pyRangeMarker pfv exLo exHi) :=
  complexify_eq_and_val pfv exLo exHi exLo_sep exHi_sep exM exM_wf exM_sep
theorem nv_complexify_simplify_val :
    (exM.simplifyPy pfv exLo exHi).complexifyPy pfv exLo exHi = exM.complexifyPy pfv exLo exHi :=
  complexify_simplify_val pfv exLo exHi exLo_sep exHi_sep exM exM_wf exM_sep
theorem nv_complexify_congr_val : exM.complexifyPy pfv exLo exHi = exS.complexifyPy pfv exLo exHi :=
  complexify_congr_val pfv exLo exHi exLo_sep exHi_sep exM exS exM_wf exS_wf exM_sep exS_sep exM_agree
theorem nv_simplify_eval_below_val :
    ∃ a, (Ivl.mk exLo exHi).mem a = true ∧ ∀ x, (Ivl.mk exLo exHi).mem x = true → ¬ a < x →
      (exM.simplifyPy pfv exLo exHi).eval ρBelow = exM.eval (ρBelow.setR pfv x) :=
  simplify_eval_below_val pfv exLo exHi exLo_sep exHi_sep exR_valid exM exM_wf exM_sep ρBelow
    (by decide)
theorem nv_simplify_eval_above_val :
    ∃ a, (Ivl.mk exLo exHi).mem a = true ∧ ∀ x, (Ivl.mk exLo exHi).mem x = true → ¬ x < a →
      (exM.simplifyPy pfv exLo exHi).eval ρAbove = exM.eval (ρAbove.setR pfv x) :=
  simplify_eval_above_val pfv exLo exHi exLo_sep exHi_sep exR_valid exM exM_wf exM_sep ρAbove
    (by decide)
theorem nv_simplify_congr_val : exM.simplifyPy pfv exLo exHi = exS.simplifyPy pfv exLo exHi :=
  simplify_congr_val pfv exLo exHi exLo_sep exHi_sep exR_valid exM exS exM_wf exS_wf exM_sep exS_sep
    exM_agree
theorem nv_simplify_congr_of_mem_val : exM.simplifyPy pfv exLo exHi = exS.simplifyPy pfv exLo exHi :=
  simplify_congr_of_mem_val pfv exLo exHi exLo_sep exHi_sep ⟨.ver [3, 9], by decide⟩ exM exS exM_wf
    exS_wf exM_sep exS_sep exM_agree
theorem nv_simplify_eq_iff_val :
    exM.simplifyPy pfv exLo exHi = exS.simplifyPy pfv exLo exHi ↔
      ∀ ρ : Env VarR VarB Val, (Ivl.mk exLo exHi).mem (ρ.rv pfv) = true → exM.eval ρ = exS.eval ρ :=
  simplify_eq_iff_val pfv exLo exHi exLo_sep exHi_sep exR_valid exM exS exM_wf exS_wf exM_sep exS_sep
theorem nv_simplify_complexify_val :
    (exM.complexifyPy pfv exLo exHi).simplifyPy pfv exLo exHi = exM.simplifyPy pfv exLo exHi :=
  simplify_complexify_val pfv exLo exHi exLo_sep exHi_sep exR_valid exM exM_wf exM_sep
theorem nv_simplify_idem_val :
    (exM.simplifyPy pfv exLo exHi).simplifyPy pfv exLo exHi = exM.simplifyPy pfv exLo exHi :=
  simplify_idem_val pfv exLo exHi exLo_sep exHi_sep exM exM_wf exM_sep

/-- the instances are not degenerate: simplification drops the Python clause, complexification
    narrows it to `[3.9, 3.12)`, and neither is the identity -/
example : exM.simplifyPy pfv exLo exHi = exS := by decide
example : exM.complexifyPy pfv exLo exHi =
    .rng (.ver .pfv) (.cons ⟨.unb, .excl (.ver [3, 9])⟩ (.leaf false)
      (.cons ⟨.incl (.ver [3, 9]), .excl (.ver [3, 12])⟩ exS
        (.cons ⟨.incl (.ver [3, 12]), .unb⟩ (.leaf false) .nil))) := by decide
example : exM.complexifyPy pfv exLo exHi ≠ exM ∧ exM.simplifyPy pfv exLo exHi ≠ exM := by decide

/-- (V4) instantiated where the relative theorems do NOT apply: the marker
    `python_full_version < '0'` (bound `0`, not separated) and the range `(1, 1.0)` (valid, empty,
    upper bound not separated) -/
theorem nv_complexify_eq_and_all :
    NonVacuityA.belowZero.complexifyPy pfv (.excl (.ver [1])) (.excl (.ver [1, 0])) =
      Tree.and NonVacuityA.belowZero (pyRangeMarker pfv (.excl (.ver [1])) (.excl (.ver [1, 0]))) :=
  complexify_eq_and_all pfv _ _ _ NonVacuityA.belowZero_wf
theorem nv_complexify_simplify_all :
    (NonVacuityA.belowZero.simplifyPy pfv (.incl (.ver [])) (.excl (.ver [1]))).complexifyPy pfv
        (.incl (.ver [])) (.excl (.ver [1])) =
      NonVacuityA.belowZero.complexifyPy pfv (.incl (.ver [])) (.excl (.ver [1])) :=
  complexify_simplify_all pfv _ _ _ NonVacuityA.belowZero_wf
theorem nv_simplify_complexify_all :
    (NonVacuityA.gapT.complexifyPy pfv (.excl (.ver [1])) (.excl (.ver [1, 0]))).simplifyPy pfv
        (.excl (.ver [1])) (.excl (.ver [1, 0])) =
      NonVacuityA.gapT.simplifyPy pfv (.excl (.ver [1])) (.excl (.ver [1, 0])) :=
  simplify_complexify_all pfv _ _ (by decide) _ NonVacuityA.gapT_fails.1
theorem nv_simplify_idem_uncond :
    (NonVacuityA.gapT.simplifyPy pfv (.incl (.ver [])) (.excl (.ver [1, 0]))).simplifyPy pfv
        (.incl (.ver [])) (.excl (.ver [1, 0])) =
      NonVacuityA.gapT.simplifyPy pfv (.incl (.ver [])) (.excl (.ver [1, 0])) :=
  simplify_idem_uncond pfv _ _ _ NonVacuityA.gapT_fails.1
/-- … on diagrams that are genuinely rewritten -/
example : NonVacuityA.belowZero.simplifyPy pfv (.incl (.ver [])) (.excl (.ver [1])) = .leaf false ∧
    NonVacuityA.belowZero.complexifyPy pfv (.incl (.ver [])) (.excl (.ver [1])) = .leaf false := by
  decide
example : NonVacuityA.gapT.simplifyPy pfv (.incl (.ver [])) (.excl (.ver [1, 0])) ≠ NonVacuityA.gapT := by
  decide

end NonVacuity

end Pep508.C12

section
open Pep508.C12
#print axioms bounds_complexify
#print axioms bounds_simplify
#print axioms bounds_pyRangeMarker
#print axioms nonempty_iff_valid_rel
#print axioms complexify_eq_and_rel
#print axioms complexify_simplify_rel
#print axioms complexify_congr_rel
#print axioms simplify_eval_below_rel
#print axioms simplify_eval_above_rel
#print axioms simplify_congr_rel
#print axioms simplify_congr_of_mem_rel
#print axioms simplify_eq_iff_rel
#print axioms simplify_complexify_rel
#print axioms simplify_idem_rel
#print axioms simplify_congr_of_dense
#print axioms complexify_congr_of_dense
#print axioms nonempty_iff_valid_val
#print axioms bounds_complexify_val
#print axioms bounds_simplify_val
#print axioms complexify_eq_and_val
#print axioms complexify_simplify_val
#print axioms complexify_congr_val
#print axioms simplify_eval_below_val
#print axioms simplify_eval_above_val
#print axioms simplify_congr_val
#print axioms simplify_congr_of_mem_val
#print axioms simplify_eq_iff_val
#print axioms simplify_complexify_val
#print axioms simplify_idem_val
#print axioms belowZero_not_separated
#print axioms simplify_congr_val_needs_sep_marker
#print axioms complexify_congr_val_needs_sep_marker
#print axioms simplify_congr_val_needs_sep_range
#print axioms complexify_congr_val_needs_sep_range
#print axioms simplify_eval_outside_val_needs_sep_range
#print axioms complexify_eq_and_all
#print axioms complexify_simplify_all
#print axioms simplify_complexify_all
#print axioms simplify_idem_uncond
#print axioms exM_agree
#print axioms nv_complexify_eq_and_val
#print axioms nv_complexify_simplify_val
#print axioms nv_complexify_congr_val
#print axioms nv_simplify_eval_below_val
#print axioms nv_simplify_eval_above_val
#print axioms nv_simplify_congr_val
#print axioms nv_simplify_congr_of_mem_val
#print axioms nv_simplify_eq_iff_val
#print axioms nv_simplify_complexify_val
#print axioms nv_simplify_idem_val
#print axioms nv_complexify_eq_and_all
#print axioms nv_complexify_simplify_all
#print axioms nv_simplify_complexify_all
#print axioms nv_simplify_idem_uncond
#print axioms Pep508.and_comm_all
end
