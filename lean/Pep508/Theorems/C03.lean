/-
C03 — canonical form: functionally equivalent markers are identical.

`canonical`: two diagrams satisfying the structural C20 predicate that agree in every environment
are the same diagram (hence the same `NodeId`: C14), over every value order in which every
syntactically valid interval is inhabited (`DenseUnbounded`: dense, no least or greatest
element) — the granularity at which the diagram reasons (`version-ranges` cannot tell that
there is no version between two bounds).  Variables are valued independently: each version /
string key, each distinct `in` / `contains` test and each extra is its own variable of `Env`.
With C20 (every reachable marker satisfies `wf`) this covers every pair of construction paths.
-/
import Pep508.Proofs.Canon
import Pep508.Theorems.C02
set_option linter.unusedSectionVars false
namespace Pep508.C03
open Pep508
variable {νr νb α : Type}
variable [LT α] [LE α] [Std.IsLinearOrder α] [Std.LawfulOrderLT α] [DecidableLT α] [DecidableEq α]
variable [LT νr] [LE νr] [Std.IsLinearOrder νr] [Std.LawfulOrderLT νr] [DecidableLT νr] [DecidableEq νr]
variable [LT νb] [LE νb] [Std.IsLinearOrder νb] [Std.LawfulOrderLT νb] [DecidableLT νb] [DecidableEq νb]

/-- equal (`==`, hence equal hash and `Ordering::Equal`) iff same function of the variables -/
theorem equal_iff_same_function [DenseUnbounded α] [Inhabited α] (x y : Tree νr νb α)
    (hx : x.wf = true) (hy : y.wf = true) :
    x = y ↔ ∀ ρ : Env νr νb α, x.eval ρ = y.eval ρ := canonical_iff x y hx hy

/-- `is_true()` holds exactly for the constant-true function -/
theorem is_true_iff [DenseUnbounded α] [Inhabited α] (x : Tree νr νb α) (hx : x.wf = true) :
    x = .leaf true ↔ ∀ ρ : Env νr νb α, x.eval ρ = true :=
  ⟨fun h ρ => by rw [h]; rfl, canonical_true x hx⟩

/-- `is_false()` holds exactly for the constant-false function -/
theorem is_false_iff [DenseUnbounded α] [Inhabited α] (x : Tree νr νb α) (hx : x.wf = true) :
    x = .leaf false ↔ ∀ ρ : Env νr νb α, x.eval ρ = false :=
  ⟨fun h ρ => by rw [h]; rfl, canonical_false x hx⟩

/-- different construction orders of a conjunction give the identical diagram (an instance used
    by the harness as a law: `a and b == b and a`), given that `and` preserves `wf` (C20) -/
theorem and_comm_of_wf [DenseUnbounded α] [Inhabited α] (x y : Tree νr νb α)
    (hx : x.wf = true) (hy : y.wf = true)
    (hxy : (Tree.and x y).wf = true) (hyx : (Tree.and y x).wf = true) :
    Tree.and x y = Tree.and y x := by
  apply canonical _ _ hxy hyx
  intro ρ
  have ox := Tree.OK_of_wf x hx
  have oy := Tree.OK_of_wf y hy
  rw [C02.eval_and ρ x y ox oy, C02.eval_and ρ y x oy ox, Bool.and_comm]

/-- why density is part of the statement: over the integers this well-formed diagram is constantly
    true without being the TRUE terminal (the edge `(3,4)` is valid but empty) -/
def intGap : Tree Nat Nat Int :=
  .rng 0 (.cons ⟨.unb, .incl 3⟩ (.leaf true)
    (.cons ⟨.excl 3, .excl 4⟩ (.leaf false) (.cons ⟨.incl 4, .unb⟩ (.leaf true) .nil)))

example : intGap.wf = true := by decide
example : ∀ ρ : Env Nat Nat Int, intGap.eval ρ = true := by
  intro ρ
  simp only [intGap, Tree.eval, Edges.eval, Ivl.mem, Bnd.loOk, Bnd.hiOk]
  generalize ρ.rv 0 = a
  by_cases h1 : (3 : Int) < a <;> by_cases h2 : a < 4 <;> simp [h1, h2] <;> omega

end Pep508.C03
