/-
C07 (layouts) — every string derivable from the PEP 508 grammar is accepted and decomposed into the
derivation's components, and changing only optional whitespace never changes the result.

The grammar, as `src/lib.rs` merges it (`wsp` = any `char::is_whitespace` character):
```
specification = wsp* name wsp* extras? wsp* ( '@' wsp* url (wsp+ | end) | '(' wsp* list wsp* ')' | list )?
                wsp* ( ';' wsp* marker wsp* )?
extras        = '[' wsp* ( extra ( wsp* ',' wsp* extra )* )? wsp* ']'
list          = spec ( wsp* ',' wsp* spec )*
```
A derivation is a requirement value `r : ReqVal` (name, extras, specifier texts / URL, marker text — the same
type `showReq` prints) plus a `Layout ℓ`: the choice of every `wsp*` run, whether the specifiers are in
parentheses, and whether an empty extras list is written `[ ]`.  `layoutReq r ℓ` is the derived string.

Proved (Proofs/ReqLayout.lean), for every well-formed `r` (`ReqVal.WFL`) and every whitespace layout `ℓ`
(`Layout.Ws`) that respects the two URL constraints (`Layout.Fits`):
* (L1) `parseRequirement` accepts `layoutReq r ℓ`; the result is the normalized name, the normalized extras,
  the kind and the marker tree; the calls to the external parsers are exactly the URL text, or the specifier
  texts *as recorded by the scans* (`recTexts`): each text with the whitespace around it up to the separators,
  minus the whitespace before the first one (the external parser trims it);
* (L2) after trimming the recorded specifier texts the result is `r.components` — it does not mention `ℓ`;
  so two layouts of one value give the same requirement;
* (L3) what is *not* optional, as proved examples: the whitespace between a URL and `;`, and — not in the
  grammar — the absence of whitespace after a URL that ends with `;` or `#`.
The marker parser's result on the marker text at its cursor is a hypothesis, as in C08 (the marker grammar
is C05's subject); the whitespace between `;` and the marker text is skipped by the requirement parser's
hand-off (`parseMarkersCursor_run`), the whitespace after the marker text is part of that hypothesis.
-/
import Pep508.Proofs.ReqLayout
namespace Pep508.C07
open Pep508

/-! ### (L1) acceptance and decomposition -/

/-- no marker: the calls and the result of parsing `r` written with any layout -/
theorem layout_accepted (env : ProcEnv) (x : Ext) (r : ReqVal) (ℓ : Layout) (hwf : r.WFL) (hℓ : ℓ.Ws)
    (hfit : ℓ.Fits r) (hm : r.marker = none) :
    parseRequirement env x (layoutReq r ℓ) = ⟨expCallsL r ℓ, .ok (expOkL r ℓ (.leaf true) [])⟩ :=
  layoutReq_parse env x r ℓ hwf hℓ hfit hm

/-- with a marker `m`: if the marker parser, started at the marker text (with the fuel the requirement
parser gives it), returns `st`, the requirement parser returns the same components with `st`'s tree and
warnings — as `urlEndsOk` for a URL requirement (accepted unless the external URL printer's text ends
with `;` / `#`) -/
theorem layout_accepted_marker (env : ProcEnv) (x : Ext) (r : ReqVal) (ℓ : Layout) (hwf : r.WFL) (hℓ : ℓ.Ws)
    (hfit : ℓ.Fits r) (m : List Char) (hm : r.marker = some m) (st : PState)
    (hst : parseMarkersCursor x (4 * (layoutReq r ℓ).length + 16)
      ⟨layoutReq r ℓ, m ++ ℓ.trail, ℓ.markerPos r⟩ = .ok st) :
    parseRequirement env x (layoutReq r ℓ) = ⟨expCallsL r ℓ, expFinL r ℓ st⟩ :=
  layoutReq_parse_marker env x r ℓ hwf hℓ hfit m hm st hst

/-- the cursor of that hypothesis is the position of the marker text in the written requirement -/
theorem marker_cursor (r : ReqVal) (ℓ : Layout) (m : List Char) (hm : r.marker = some m) :
    Cursor.Inv ⟨layoutReq r ℓ, m ++ ℓ.trail, ℓ.markerPos r⟩ :=
  markerPosL_inv r ℓ m hm

/-- the calls do not depend on the marker (nor on the marker parser accepting it) … -/
theorem layout_calls (env : ProcEnv) (x : Ext) (r : ReqVal) (ℓ : Layout) (hwf : r.WFL) (hℓ : ℓ.Ws)
    (hfit : ℓ.Fits r) :
    (parseRequirement env x (layoutReq r ℓ)).calls = expCallsL r ℓ :=
  layoutReq_calls env x r ℓ hwf hℓ hfit

/-- … and each call's `(start, len)` is the span of its text in the written requirement -/
theorem layout_calls_spans (env : ProcEnv) (x : Ext) (r : ReqVal) (ℓ : Layout) (hwf : r.WFL) (hℓ : ℓ.Ws)
    (hfit : ℓ.Fits r) : ∀ call ∈ expCallsL r ℓ, call.OK (layoutReq r ℓ) :=
  layoutReq_calls_ok env x r ℓ hwf hℓ hfit

/-- the recorded specifier texts are the specifier texts up to surrounding whitespace -/
theorem recorded_texts_trim (ts : List (List Char)) (ℓ : Layout) (hℓ : ℓ.Ws) (hts : ∀ t ∈ ts, SpecWF t)
    (hl : ∀ t ∈ ts, ∀ ch, t.getLast? = some ch → isWs ch = false) :
    (recTexts ts ℓ).map trimWs = ts :=
  recTexts_trim ts ℓ hℓ hts hl

/-- a written requirement is never rejected (as long as the marker parser accepts the marker text) -/
theorem layout_never_rejected (env : ProcEnv) (x : Ext) (r : ReqVal) (ℓ : Layout) (hwf : r.WFL) (hℓ : ℓ.Ws)
    (hfit : ℓ.Fits r)
    (hmk : ∀ m, r.marker = some m → ∃ st, parseMarkersCursor x (4 * (layoutReq r ℓ).length + 16)
      ⟨layoutReq r ℓ, m ++ ℓ.trail, ℓ.markerPos r⟩ = .ok st) :
    ∃ ok, (parseRequirement env x (layoutReq r ℓ)).fin.req? = some ok :=
  layoutReq_never_rejected env x r ℓ hwf hℓ hfit hmk

/-! ### (L2) layout independence -/

/-- the accepted requirement, specifier texts trimmed, is the requirement value's components -/
theorem layout_components (env : ProcEnv) (x : Ext) (r : ReqVal) (ℓ : Layout) (hwf : r.WFL) (hℓ : ℓ.Ws)
    (hfit : ℓ.Fits r) (hnt : r.NoTrailWs) (hm : r.marker = none) :
    (parseRequirement env x (layoutReq r ℓ)).fin.req?.map ReqOk.trim = some (r.components (.leaf true) []) :=
  layoutReq_components env x r ℓ hwf hℓ hfit hnt hm

theorem layout_components_marker (env : ProcEnv) (x : Ext) (r : ReqVal) (ℓ : Layout) (hwf : r.WFL)
    (hℓ : ℓ.Ws) (hfit : ℓ.Fits r) (hnt : r.NoTrailWs) (m : List Char) (hm : r.marker = some m) (st : PState)
    (hst : parseMarkersCursor x (4 * (layoutReq r ℓ).length + 16)
      ⟨layoutReq r ℓ, m ++ ℓ.trail, ℓ.markerPos r⟩ = .ok st) :
    (parseRequirement env x (layoutReq r ℓ)).fin.req?.map ReqOk.trim =
      some (r.components (st.tree.getD (.leaf true)) st.warns) :=
  layoutReq_components_marker env x r ℓ hwf hℓ hfit hnt m hm st hst

/-- two layouts, no marker: the same requirement -/
theorem whitespace_irrelevant (env : ProcEnv) (x : Ext) (r : ReqVal) (ℓ₁ ℓ₂ : Layout) (hwf : r.WFL)
    (h₁ : ℓ₁.Ws) (h₂ : ℓ₂.Ws) (f₁ : ℓ₁.Fits r) (f₂ : ℓ₂.Fits r) (hnt : r.NoTrailWs) (hm : r.marker = none) :
    (parseRequirement env x (layoutReq r ℓ₁)).fin.req?.map ReqOk.trim =
      (parseRequirement env x (layoutReq r ℓ₂)).fin.req?.map ReqOk.trim :=
  layout_independent env x r ℓ₁ ℓ₂ hwf h₁ h₂ f₁ f₂ hnt hm

/-- two layouts, with a marker: the same requirement, provided the marker parser returns the same tree and
warnings on the marker text in both written forms -/
theorem whitespace_irrelevant_marker (env : ProcEnv) (x : Ext) (r : ReqVal) (ℓ₁ ℓ₂ : Layout) (hwf : r.WFL)
    (h₁ : ℓ₁.Ws) (h₂ : ℓ₂.Ws) (f₁ : ℓ₁.Fits r) (f₂ : ℓ₂.Fits r) (hnt : r.NoTrailWs)
    (m : List Char) (hm : r.marker = some m) (st₁ st₂ : PState)
    (hst₁ : parseMarkersCursor x (4 * (layoutReq r ℓ₁).length + 16)
      ⟨layoutReq r ℓ₁, m ++ ℓ₁.trail, ℓ₁.markerPos r⟩ = .ok st₁)
    (hst₂ : parseMarkersCursor x (4 * (layoutReq r ℓ₂).length + 16)
      ⟨layoutReq r ℓ₂, m ++ ℓ₂.trail, ℓ₂.markerPos r⟩ = .ok st₂)
    (htree : st₁.tree = st₂.tree) (hwarns : st₁.warns = st₂.warns) :
    (parseRequirement env x (layoutReq r ℓ₁)).fin.req?.map ReqOk.trim =
      (parseRequirement env x (layoutReq r ℓ₂)).fin.req?.map ReqOk.trim :=
  layout_independent_marker env x r ℓ₁ ℓ₂ hwf h₁ h₂ f₁ f₂ hnt m hm st₁ st₂ hst₁ hst₂ htree hwarns

/-- the printed form (C08) is one of the layouts: no whitespace except one blank around `@` and `;` -/
theorem printed_is_layout (r : ReqVal) (hk : r.kind ≠ .specs []) :
    showReq r = layoutReq r (Layout.canon r) ∧ (Layout.canon r).Ws :=
  ⟨showReq_is_layout r hk, canon_ws r⟩

/-! ### non-vacuity: one value, two layouts -/

/-- name `a`, extras `x`, `y`, specifiers `>= 1` and `< 2` (inner blanks), marker `os_name=='a'` -/
def v1 : ReqVal :=
  ⟨"a".toList, ["x".toList, "y".toList], .specs [">= 1".toList, "< 2".toList], some "os_name=='a'".toList⟩

theorem v1_wf : v1.WFL :=
  ⟨nameOk_wf (by decide), by intro e h; simp [v1] at h; rcases h with rfl | rfl <;> exact nameOk_wf (by decide),
   ⟨by simp, by
      intro t h; simp at h
      rcases h with rfl | rfl
      · exact ⟨⟨'>', _, rfl, by decide⟩, by decide⟩
      · exact ⟨⟨'<', _, rfl, by decide⟩, by decide⟩⟩⟩

theorem v1_notrail : v1.NoTrailWs := by
  intro t h; simp at h
  rcases h with rfl | rfl <;> decide

/-- whitespace everywhere, a tab and a line break among it, specifiers in parentheses -/
def l1 : Layout where
  lead := [' ']
  afterName := [' ']
  exBrackets := false
  exOpen := [' ']
  exSeps := [([' '], [' '])]
  exClose := [' ']
  beforeKind := [' ', ' ']
  afterAt := []
  parens := true
  parenOpen := [' ']
  specSeps := [(['\t'], ['\n'])]
  parenClose := [' ']
  afterKind := [' ']
  afterSemi := [' ']
  trail := [' ']

theorem l1_ws : l1.Ws := Layout.ws_of_ok (by decide)

example : layoutReq v1 l1 = " a [ x , y ]  ( >= 1\t,\n< 2 ) ; os_name=='a' ".toList := by decide
example : l1.markerPos v1 = 31 := by decide

/-- the two recorded texts keep the whitespace up to the separators; the requirement is accepted -/
example (env : ProcEnv) (x : Ext) (st : PState)
    (h : parseMarkersCursor x (4 * 44 + 16)
      ⟨" a [ x , y ]  ( >= 1\t,\n< 2 ) ; os_name=='a' ".toList, "os_name=='a' ".toList, 31⟩ = .ok st) :
    parseRequirement env x " a [ x , y ]  ( >= 1\t,\n< 2 ) ; os_name=='a' ".toList =
      ⟨[.spec ">= 1\t".toList 16 5, .spec "\n< 2 ".toList 22 5],
        .ok ⟨[97], [[120], [121]], .specs [">= 1\t".toList, "\n< 2 ".toList],
          st.tree.getD (.leaf true), st.warns⟩⟩ :=
  layout_accepted_marker env x v1 l1 v1_wf l1_ws trivial _ rfl st h

/-- no whitespace at all, bare specifiers: `a[x,y]>= 1,< 2;os_name=='a'` -/
def l0 : Layout := ⟨[], [], false, [], [], [], [], [], false, [], [], [], [], [], []⟩

theorem l0_ws : l0.Ws := Layout.ws_of_ok (by decide)

example : layoutReq v1 l0 = "a[x,y]>= 1,< 2;os_name=='a'".toList := by decide

example (env : ProcEnv) (x : Ext) (st : PState)
    (h : parseMarkersCursor x (4 * 27 + 16)
      ⟨"a[x,y]>= 1,< 2;os_name=='a'".toList, "os_name=='a'".toList, 15⟩ = .ok st) :
    parseRequirement env x "a[x,y]>= 1,< 2;os_name=='a'".toList =
      ⟨[.spec ">= 1".toList 6 4, .spec "< 2".toList 11 3],
        .ok ⟨[97], [[120], [121]], .specs [">= 1".toList, "< 2".toList],
          st.tree.getD (.leaf true), st.warns⟩⟩ :=
  layout_accepted_marker env x v1 l0 v1_wf l0_ws trivial _ rfl st h

/-- an external version parser that knows nothing (the marker below compares strings) -/
def x0 : Ext := ⟨fun _ => none, fun _ => none, fun _ => false⟩

/-- the marker hypothesis is satisfiable for both layouts … -/
theorem v1_marker_ok (ℓ : Layout) (hℓ : ℓ = l0 ∨ ℓ = l1) :
    ∃ st, parseMarkersCursor x0 (4 * (layoutReq v1 ℓ).length + 16)
      ⟨layoutReq v1 ℓ, "os_name=='a'".toList ++ ℓ.trail, ℓ.markerPos v1⟩ = .ok st := by
  have h : (match parseMarkersCursor x0 (4 * (layoutReq v1 ℓ).length + 16)
      ⟨layoutReq v1 ℓ, "os_name=='a'".toList ++ ℓ.trail, ℓ.markerPos v1⟩ with
      | .ok _ => true | _ => false) = true := by
    rcases hℓ with rfl | rfl <;> decide
  cases hr : parseMarkersCursor x0 (4 * (layoutReq v1 ℓ).length + 16)
      ⟨layoutReq v1 ℓ, "os_name=='a'".toList ++ ℓ.trail, ℓ.markerPos v1⟩ with
  | ok st => exact ⟨st, rfl⟩
  | err e => rw [hr] at h; simp at h
  | panic s => rw [hr] at h; simp at h

/-- … so both written forms are accepted, with the components of `v1` -/
example (env : ProcEnv) (ℓ : Layout) (hℓ : ℓ = l0 ∨ ℓ = l1) :
    ∃ tree warns, (parseRequirement env x0 (layoutReq v1 ℓ)).fin.req?.map ReqOk.trim =
      some ⟨[97], [[120], [121]], .specs [">= 1".toList, "< 2".toList], tree, warns⟩ := by
  obtain ⟨st, h⟩ := v1_marker_ok ℓ hℓ
  have hws : ℓ.Ws := by rcases hℓ with rfl | rfl; exact l0_ws; exact l1_ws
  exact ⟨_, _, layout_components_marker env x0 v1 ℓ v1_wf hws trivial v1_notrail _ rfl st h⟩

/-- `a@u`: no whitespace is needed around `@` -/
example (env : ProcEnv) (x : Ext) :
    parseRequirement env x "a@u".toList = ⟨[.url ['u'] 2 1], .ok ⟨[97], [], .url ['u'], .leaf true, []⟩⟩ :=
  layout_accepted env x ⟨['a'], [], .url ['u'], none⟩ l0
    ⟨nameOk_wf (by decide), by intro e h; simp at h, ⟨by simp, by decide⟩⟩ l0_ws
    ⟨fun h => by simp at h, fun h => absurd rfl h⟩ rfl

/-- `a[ ]`: an empty extras list may be written -/
example (env : ProcEnv) (x : Ext) :
    parseRequirement env x "a[ ]".toList = ⟨[], .ok ⟨[97], [], .none, .leaf true, []⟩⟩ :=
  layout_accepted env x ⟨['a'], [], .none, none⟩ { l0 with exBrackets := true, exOpen := [' '] }
    ⟨nameOk_wf (by decide), by intro e h; simp at h, looksLikeArchive_of_no_dot _ (by decide)⟩
    (Layout.ws_of_ok (by decide)) trivial rfl

/-! ### (L3) what is not optional -/

/-- the whitespace between a URL and `;` is mandatory: without it the marker is swallowed by the URL
(this *is* the requirement with URL `u;os_name=='a'` and no marker, written with the empty layout) … -/
theorem url_semicolon_glued_swallows_marker (env : ProcEnv) (x : Ext) :
    parseRequirement env x "a @ u;os_name=='a'".toList =
      ⟨[.url "u;os_name=='a'".toList 4 14],
        .ok ⟨[97], [], .url "u;os_name=='a'".toList, .leaf true, []⟩⟩ :=
  layout_accepted env x ⟨['a'], [], .url "u;os_name=='a'".toList, none⟩
    { l0 with beforeKind := [' '], afterAt := [' '] }
    ⟨nameOk_wf (by decide), by intro e h; simp at h, ⟨by simp, by decide⟩⟩ (Layout.ws_of_ok (by decide))
    ⟨fun h => by simp at h, fun h => absurd rfl h⟩ rfl

/-- … while with one blank the URL is `u` and the marker is parsed -/
theorem url_blank_semicolon_marker (env : ProcEnv) (x : Ext) (st : PState)
    (h : parseMarkersCursor x (4 * 19 + 16) ⟨"a @ u ;os_name=='a'".toList, "os_name=='a'".toList, 7⟩ = .ok st) :
    parseRequirement env x "a @ u ;os_name=='a'".toList =
      ⟨[.url ['u'] 4 1],
        if st.tree.isSome then
          .urlEndsOk [(';', ⟨.string, 4, 1⟩), ('#', ⟨.string, 4, 1⟩)]
            ⟨[97], [], .url ['u'], st.tree.getD (.leaf true), st.warns⟩
        else .ok ⟨[97], [], .url ['u'], st.tree.getD (.leaf true), st.warns⟩⟩ :=
  layout_accepted_marker env x ⟨['a'], [], .url ['u'], some "os_name=='a'".toList⟩
    { l0 with beforeKind := [' '], afterAt := [' '], afterKind := [' '] }
    ⟨nameOk_wf (by decide), by intro e h; simp at h, ⟨by simp, by decide⟩⟩ (Layout.ws_of_ok (by decide))
    ⟨fun _ => by decide, fun _ => by decide⟩ _ rfl st h

/-- the second clause of `Layout.Fits` cannot be dropped, and "changing only optional whitespace never
changes the result" is FALSE for a URL that ends with `;` (or `#`): `a @ u;` is accepted with URL `u;`,
`a @ u; ` — one trailing blank, optional in the grammar — is rejected ("ambiguous URL end" at the `;`) -/
theorem trailing_blank_after_url_semicolon_changes_outcome (env : ProcEnv) (x : Ext) :
    parseRequirement env x "a @ u;".toList =
      ⟨[.url "u;".toList 4 2], .ok ⟨[97], [], .url "u;".toList, .leaf true, []⟩⟩ ∧
    parseRequirement env x "a @ u; ".toList = ⟨[], .err ⟨.string, 5, 1⟩⟩ := by
  constructor
  · rw [show "a @ u;".toList = 'a' :: " @ u;".toList from rfl,
      parse_a env x _ (by intro ch h; simp at h; subst h; decide)]
    rfl
  · rw [show "a @ u; ".toList = 'a' :: " @ u; ".toList from rfl,
      parse_a env x _ (by intro ch h; simp at h; subst h; decide)]
    rfl

theorem trailing_blank_after_url_hash_changes_outcome (env : ProcEnv) (x : Ext) :
    parseRequirement env x "a @ u#".toList =
      ⟨[.url "u#".toList 4 2], .ok ⟨[97], [], .url "u#".toList, .leaf true, []⟩⟩ ∧
    parseRequirement env x "a @ u# ".toList = ⟨[], .err ⟨.string, 5, 1⟩⟩ := by
  constructor
  · rw [show "a @ u#".toList = 'a' :: " @ u#".toList from rfl,
      parse_a env x _ (by intro ch h; simp at h; subst h; decide)]
    rfl
  · rw [show "a @ u# ".toList = 'a' :: " @ u# ".toList from rfl,
      parse_a env x _ (by intro ch h; simp at h; subst h; decide)]
    rfl

/-- the URL clause "no whitespace character" of `WFL` is about the *value*: whitespace that is not followed
by `;`, `#` or the end does not end the URL, so `a @ u b` is the URL `u b` -/
theorem blank_inside_url (env : ProcEnv) (x : Ext) :
    parseRequirement env x "a @ u b".toList =
      ⟨[.url "u b".toList 4 3], .ok ⟨[97], [], .url "u b".toList, .leaf true, []⟩⟩ := by
  rw [show "a @ u b".toList = 'a' :: " @ u b".toList from rfl,
    parse_a env x _ (by intro ch h; simp at h; subst h; decide)]
  rfl

/-- the clause "at least one specifier" of `WFL` is needed: `a()` is not `a` — the parenthesised scan issues
a call with the empty text (which the external parser rejects) -/
theorem empty_parentheses_call (env : ProcEnv) (x : Ext) :
    parseRequirement env x "a()".toList = ⟨[.spec [] 2 0], .ok ⟨[97], [], .specs [[]], .leaf true, []⟩⟩ ∧
    parseRequirement env x "a( )".toList = ⟨[.spec [] 3 0], .ok ⟨[97], [], .specs [[]], .leaf true, []⟩⟩ := by
  constructor
  · rw [show "a()".toList = 'a' :: "()".toList from rfl,
      parse_a env x _ (by intro ch h; simp at h; subst h; decide)]
    rfl
  · rw [show "a( )".toList = 'a' :: "( )".toList from rfl,
      parse_a env x _ (by intro ch h; simp at h; subst h; decide)]
    rfl

/-- the bare scan does not stop at a parenthesis: `a>=1 (x)` is one specifier text `>=1 (x)` (after a bare
list nothing but `;` can follow) — while after a parenthesised list a bare one is an error -/
theorem bare_scan_takes_parentheses (env : ProcEnv) (x : Ext) :
    parseRequirement env x "a>=1 (x)".toList =
      ⟨[.spec ">=1 (x)".toList 1 7], .ok ⟨[97], [], .specs [">=1 (x)".toList], .leaf true, []⟩⟩ ∧
    parseRequirement env x "a(>=1) >=2".toList = ⟨[.spec ">=1".toList 2 3], .err ⟨.string, 7, 1⟩⟩ := by
  constructor
  · rw [show "a>=1 (x)".toList = 'a' :: ">=1 (x)".toList from rfl,
      parse_a env x _ (by intro ch h; simp at h; subst h; decide)]
    rfl
  · rw [show "a(>=1) >=2".toList = 'a' :: "(>=1) >=2".toList from rfl,
      parse_a env x _ (by intro ch h; simp at h; subst h; decide)]
    rfl

end Pep508.C07
