/-
Line-protocol helpers for the native driver (no imports beyond core).
Fields are TAB separated; arbitrary strings travel hex-encoded (UTF-8 bytes).
-/
namespace Pep508.Driver

def hexDigit (n : Nat) : Char :=
  if n < 10 then Char.ofNat (48 + n) else Char.ofNat (87 + n)

def hexOfBytes (bs : List Nat) : String :=
  String.ofList (bs.flatMap fun b => [hexDigit (b / 16), hexDigit (b % 16)])

def hexVal (c : Char) : Option Nat :=
  let n := c.toNat
  if 48 ≤ n && n ≤ 57 then some (n - 48)
  else if 97 ≤ n && n ≤ 102 then some (n - 87)
  else if 65 ≤ n && n ≤ 70 then some (n - 55)
  else none

def bytesOfHexAux : List Char → List Nat → Option (List Nat)
  | [], acc => some acc.reverse
  | [_], _ => none
  | a :: b :: rest, acc =>
    match hexVal a, hexVal b with
    | some x, some y => bytesOfHexAux rest ((x * 16 + y) :: acc)
    | _, _ => none

/-- "-" encodes the empty string (so that fields are never empty) -/
def bytesOfHex (s : String) : Option (List Nat) :=
  if s == "-" then some [] else bytesOfHexAux s.toList []

def hexOfBytes' (bs : List Nat) : String :=
  if bs.isEmpty then "-" else hexOfBytes bs

def stringOfBytes (bs : List Nat) : String :=
  match String.fromUTF8? (ByteArray.mk (bs.map (·.toUInt8)).toArray) with
  | some s => s
  | none => ""

def bytesOfString (s : String) : List Nat := s.toUTF8.toList.map (·.toNat)

def fields (line : String) : List String :=
  (line.splitOn "\t").map fun f => (f.trimAscii).toString

end Pep508.Driver
