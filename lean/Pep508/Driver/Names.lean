import Pep508.Driver.Util
import Pep508.Model.Names
namespace Pep508.Driver
open Pep508.Names

def showOpt : Option (List Nat) → String
  | none => "err"
  | some r => "ok:" ++ hexOfBytes' r

def showIsNorm : IsNorm → String
  | .err => "err" | .no => "no" | .yes => "yes"

/-- `name <hex>` ↦ `ref=… owned=… isnorm=… dist=…` -/
def runName (args : List String) : String :=
  match args with
  | [h] =>
    match bytesOfHex h with
    | none => "bad-op"
    | some bs =>
      let r := validateRef bs
      let o := validateOwned bs
      let d := match r with | none => "-" | some x => hexOfBytes' (distInfo x)
      s!"ref={showOpt r}\towned={showOpt o}\tdist={d}"
  | _ => "bad-op"

end Pep508.Driver
