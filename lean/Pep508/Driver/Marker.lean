import Pep508.Driver.Util
import Pep508.Model.Marker
namespace Pep508.Driver
open Pep508

/-! ### tokens → values -/

def parseRel (s : String) : Option (List Nat) :=
  (s.splitOn ".").mapM (·.toNat?)

def showRel (r : List Nat) : String :=
  match stripZeros r with
  | [] => "0"
  | l => ".".intercalate (l.map toString)

def parseVKey : String → Option VKey
  | "iv" => some .implVer | "pfv" => some .pfv | "pv" => some .pyVer | _ => none

def parseOp : String → Option Op
  | "eq" => some .eq | "xeq" => some .exactEq | "ne" => some .ne | "tilde" => some .tilde
  | "lt" => some .lt | "le" => some .le | "gt" => some .gt | "ge" => some .ge
  | "eqs" => some .eqStar | "nes" => some .neStar | _ => none

def parseSOp : String → Option SOp
  | "eq" => some .eq | "ne" => some .ne | "gt" => some .gt | "ge" => some .ge
  | "lt" => some .lt | "le" => some .le | "in" => some .isIn | "notin" => some .notIn
  | "ct" => some .contains | "notct" => some .notContains | _ => none

def parseStr (h : String) : Option String := (bytesOfHex h).map stringOfBytes

def parseBound (kind : String → Val) (t : String) : Option (Bnd Val) :=
  if t == "u" then some .unb
  else match t.splitOn ":" with
    | ["i", v] => some (.incl (kind v))
    | ["e", v] => some (.excl (kind v))
    | _ => none

def verVal (s : String) : Val := .ver (stripZeros ((parseRel s).getD []))

/-! ### canonical dump (same text as the harness produces from `kind()`) -/

def showVal : Val → String
  | .ver v => showRel v
  | .str s => "h" ++ hexOfBytes' (bytesOfString s)

def showBnd : Bnd Val → String
  | .unb => "u"
  | .incl v => "i" ++ showVal v
  | .excl v => "e" ++ showVal v

def showVarR : VarR → String
  | .ver .implVer => "v:iv" | .ver .pfv => "v:pfv" | .ver .pyVer => "v:pv"
  | .str k => s!"s:{k.idx}"

def showVarB : VarB → String
  | .isIn k v => s!"in:{k.idx}:{hexOfBytes' (bytesOfString v)}"
  | .contains k v => s!"ct:{k.idx}:{hexOfBytes' (bytesOfString v)}"
  | .extra (.extra e) => s!"x:e:{hexOfBytes' (bytesOfString e)}"
  | .extra (.arbitrary e) => s!"x:a:{hexOfBytes' (bytesOfString e)}"

mutual
def dumpTree : MTree → String
  | .leaf true => "T"
  | .leaf false => "F"
  | .rng v es => "R " ++ showVarR v ++ " " ++ toString es.toList.length ++ dumpEdges es
  | .bool v h l => "B " ++ showVarB v ++ " " ++ dumpTree h ++ " " ++ dumpTree l
def dumpEdges : Edges VarR VarB Val → String
  | .nil => ""
  | .cons iv t rest => " " ++ showBnd iv.lo ++ " " ++ showBnd iv.hi ++ " " ++ dumpTree t ++ dumpEdges rest
end

/-! ### literal trees (the dump read back) -/

def parseVal (s : String) : Option Val :=
  if s.startsWith "h" then (parseStr (s.drop 1).toString).map Val.str
  else (parseRel s).map fun r => Val.ver (stripZeros r)

def parseBnd (t : String) : Option (Bnd Val) :=
  if t == "u" then some .unb
  else if t.startsWith "i" then (parseVal (t.drop 1).toString).map .incl
  else if t.startsWith "e" then (parseVal (t.drop 1).toString).map .excl
  else none

def parseVarR (t : String) : Option VarR :=
  match t.splitOn ":" with
  | ["v", k] => (parseVKey k).map .ver
  | ["s", k] => k.toNat?.map fun i => .str ⟨i⟩
  | _ => none

def parseVarB (t : String) : Option VarB :=
  match t.splitOn ":" with
  | ["in", k, v] => do let k ← k.toNat?; let v ← parseStr v; pure (.isIn ⟨k⟩ v)
  | ["ct", k, v] => do let k ← k.toNat?; let v ← parseStr v; pure (.contains ⟨k⟩ v)
  | ["x", "e", v] => do let v ← parseStr v; pure (.extra (.extra v))
  | ["x", "a", v] => do let v ← parseStr v; pure (.extra (.arbitrary v))
  | _ => none

mutual
def literal : Nat → List String → Option (MTree × List String)
  | 0, _ => none
  | fuel + 1, ts =>
    match ts with
    | "T" :: ts => some (.leaf true, ts)
    | "F" :: ts => some (.leaf false, ts)
    | "R" :: v :: n :: ts => do
      let v ← parseVarR v; let n ← n.toNat?
      let (es, ts) ← literalEdges fuel n ts
      pure (.rng v (Edges.ofList es), ts)
    | "B" :: v :: ts => do
      let v ← parseVarB v
      let (h, ts) ← literal fuel ts
      let (l, ts) ← literal fuel ts
      pure (.bool v h l, ts)
    | _ => none
def literalEdges : Nat → Nat → List String → Option (List (Ivl Val × MTree) × List String)
  | 0, _, _ => none
  | _, 0, ts => some ([], ts)
  | fuel + 1, n + 1, lo :: hi :: ts => do
    let lo ← parseBnd lo; let hi ← parseBnd hi
    let (c, ts) ← literal fuel ts
    let (rest, ts) ← literalEdges fuel n ts
    pure ((⟨lo, hi⟩, c) :: rest, ts)
  | _, _, _ => none
end

/-! ### marker terms (prefix notation) -/

def takeN {β} (p : List String → Option (β × List String)) : Nat → List String → Option (List β × List String)
  | 0, ts => some ([], ts)
  | n + 1, ts => do
    let (x, ts) ← p ts
    let (xs, ts) ← takeN p n ts
    pure (x :: xs, ts)

def pRel : List String → Option (List Nat × List String)
  | t :: ts => (parseRel t).map (·, ts)
  | [] => none

def pStr : List String → Option (String × List String)
  | t :: ts => (parseStr t).map (·, ts)
  | [] => none

def pfvVar : VarR := .ver .pfv

/-- build the tree denoted by a term; fuel bounds the nesting -/
def term : Nat → List String → Option (MTree × List String)
  | 0, _ => none
  | fuel + 1, ts =>
    match ts with
    | "T" :: ts => some (.leaf true, ts)
    | "F" :: ts => some (.leaf false, ts)
    | "L" :: ts => literal (ts.length + 1) ts
    | "V" :: k :: op :: rel :: ts => do
      let k ← parseVKey k; let op ← parseOp op; let rel ← parseRel rel
      pure (expression (.version k ⟨op, rel⟩), ts)
    | "VI" :: k :: neg :: n :: ts => do
      let k ← parseVKey k; let n ← n.toNat?
      let (vs, ts) ← takeN pRel n ts
      pure (expression (.versionIn k vs (neg == "1")), ts)
    | "S" :: k :: op :: v :: ts => do
      let k ← k.toNat?; let op ← parseSOp op; let v ← parseStr v
      pure (expression (.string ⟨k⟩ op v), ts)
    | "X" :: neg :: kind :: v :: ts => do
      let v ← parseStr v
      let name := if kind == "e" then ExtraVal.extra v else ExtraVal.arbitrary v
      pure (expression (.extra (neg == "1") name), ts)
    | "and" :: ts => do
      let (a, ts) ← term fuel ts; let (b, ts) ← term fuel ts
      pure (Tree.and a b, ts)
    | "or" :: ts => do
      let (a, ts) ← term fuel ts; let (b, ts) ← term fuel ts
      pure (Tree.or a b, ts)
    | "not" :: ts => do
      let (a, ts) ← term fuel ts
      pure (a.not, ts)
    | "rx" :: n :: ts => do
      let n ← n.toNat?
      let (names, ts) ← takeN pStr n ts
      let (a, ts) ← term fuel ts
      let f : VarB → Option Bool := fun v =>
        match v with
        | .extra (.extra e) => if names.contains e then some true else none
        | _ => none
      pure (a.restrict f, ts)
    | "sp" :: lo :: hi :: ts => do
      let lo ← parseBound verVal lo; let hi ← parseBound verVal hi
      let (a, ts) ← term fuel ts
      pure (a.simplifyPy pfvVar lo hi, ts)
    | "cp" :: lo :: hi :: ts => do
      let lo ← parseBound verVal lo; let hi ← parseBound verVal hi
      let (a, ts) ← term fuel ts
      pure (a.complexifyPy pfvVar lo hi, ts)
    | _ => none

def parseTerm (s : String) : Option MTree :=
  let ts := (s.splitOn " ").filter (· ≠ "")
  match term (ts.length + 1) ts with
  | some (t, []) => some t
  | _ => none

/-! ### environments -/

structure CEnv where
  vers : List (List Nat)      -- implementation_version, python_full_version, python_version
  strs : List String          -- the 8 string fields
  extras : List String

/-- which environment field each `MarkerValueString` spelling reads (`get_string`) -/
def fieldOf (k : SKey) : Nat := [0, 1, 1, 2, 2, 3, 3, 3, 4, 5, 6, 6, 7, 7].getD k.idx 0

/-- substring test (`str::contains`) on char lists -/
def isInfix (pat s : List Char) : Bool :=
  match s with
  | [] => pat.isEmpty
  | _ :: rest => pat.isPrefixOf s || isInfix pat rest

def CEnv.toEnv (e : CEnv) : Env VarR VarB Val where
  rv := fun v => match v with
    | .ver k => .ver (stripZeros (e.vers.getD k.idx []))
    | .str k => .str (e.strs.getD (fieldOf k) "")
  bv := fun v => match v with
    | .isIn k val => isInfix (e.strs.getD (fieldOf k) "").toList val.toList
    | .contains k val => isInfix val.toList (e.strs.getD (fieldOf k) "").toList
    | .extra (.extra n) => e.extras.contains n
    | .extra (.arbitrary _) => false

/-- `iv,pfv,pv;hex×8 (comma);extras (comma, may be "-")` -/
def parseEnv (s : String) : Option CEnv :=
  match s.splitOn ";" with
  | [vs, ss, xs] => do
    let vers ← (vs.splitOn ",").mapM parseRel
    let strs ← (ss.splitOn ",").mapM parseStr
    let extras ← if xs == "-" || xs == "" then some [] else (xs.splitOn ",").mapM parseStr
    pure ⟨vers, strs, extras⟩
  | _ => none

def bits (bs : List Bool) : String := String.ofList (bs.map fun b => if b then '1' else '0')

/-- `dump <term>` -/
def runDump (args : List String) : String :=
  match args with
  | [t] => match parseTerm t with
    | some tr => dumpTree tr ++ "\twf=" ++ (if tr.wf then "1" else "0")
    | none => "bad-op"
  | _ => "bad-op"

/-- `ev <term> <env> <env> …` ↦ one bit per environment -/
def runEv (args : List String) : String :=
  match args with
  | t :: envs => match parseTerm t, envs.mapM parseEnv with
    | some tr, some es => bits (es.map fun e => tr.eval e.toEnv)
    | _, _ => "bad-op"
  | _ => "bad-op"

/-- `disj <t1> <t2>` -/
def runDisj (args : List String) : String :=
  match args with
  | [a, b] => match parseTerm a, parseTerm b with
    | some x, some y => (if x.isDisjoint y then "1" else "0") ++ (if y.isDisjoint x then "1" else "0") ++
        (if Tree.and x y == .leaf false then "1" else "0")
    | _, _ => "bad-op"
  | _ => "bad-op"

/-- `xev <term> <extras-csv> …` ↦ evaluate_extras bits -/
def runXev (args : List String) : String :=
  match args with
  | t :: sets => match parseTerm t with
    | some tr =>
      let one (xs : String) : Option Bool := do
        let extras ← if xs == "-" then some [] else (xs.splitOn ",").mapM parseStr
        let f : VarB → Option Bool := fun v => match v with
          | .extra (.extra n) => some (extras.contains n)
          | .extra (.arbitrary _) => some false
          | _ => none
        pure (tr.evalExtras f)
      match sets.mapM one with
      | some bs => bits bs
      | none => "bad-op"
    | none => "bad-op"
  | _ => "bad-op"

end Pep508.Driver
