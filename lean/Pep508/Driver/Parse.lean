import Pep508.Driver.Marker
import Pep508.Model.MarkerParse
namespace Pep508.Driver
open Pep508

def charsOfHex (h : String) : Option (List Char) := (parseStr h).map (·.toList)

/-- `<hex>:<ver>:<pat>` with ver = `-` | `rel/l`, pat = `-` | `rel/l/s` -/
structure ExtEntry where
  text : List Char
  ver : Option VerInfo
  pat : Option (VerInfo × Bool)

def parseVerInfo (s : String) : Option VerInfo :=
  match s.splitOn "/" with
  | [r, l] => (parseRel r).map fun rel => ⟨rel, l == "1"⟩
  | _ => none

def parseExtEntry (s : String) : Option ExtEntry :=
  match s.splitOn ":" with
  | [h, v, p] => do
    let text ← charsOfHex h
    let ver := if v == "-" then none else parseVerInfo v
    let pat := if p == "-" then none else
      match p.splitOn "/" with
      | [r, l, st] => (parseRel r).map fun rel => (⟨rel, l == "1"⟩, st == "1")
      | _ => none
    pure ⟨text, ver, pat⟩
  | _ => none

def mkExt (alpha : List Char) (es : List ExtEntry) : Ext where
  ver := fun t => (es.find? (·.text == t)).bind (·.ver)
  pat := fun t => (es.find? (·.text == t)).bind (·.pat)
  alpha := fun c => (c.toNat < 128 && c.isAlpha) || alpha.contains c

def showWarn : WarnKind → String
  | .deprecatedMarkerName => "D" | .extraInvalidComparison => "X" | .lexicographicComparison => "L"
  | .markerMarkerComparison => "M" | .pep440Error => "P" | .stringStringComparison => "S"

def showWarns (ws : List WarnKind) : String :=
  if ws.isEmpty then "-" else String.join (ws.map showWarn)

def parseExtArgs (alpha : String) (entries : List String) : Option Ext := do
  let a ← charsOfHex alpha
  let es ← (entries.filter (· ≠ "")).mapM parseExtEntry
  pure (mkExt a es)

/-- `mparse <text> <alpha> <entries…>` ↦ `ok <dump> w=<kinds>` | `err <start> <len>` | `panic` -/
def runMparse (args : List String) : String :=
  match args with
  | text :: alpha :: entries =>
    match charsOfHex text, parseExtArgs alpha (entries.flatMap (·.splitOn " ")) with
    | some t, some x =>
      match parseMarkers x t with
      | .ok (tr, ws) => s!"ok {dumpTree tr} w={showWarns ws}"
      | .err e => s!"err {e.start} {e.len}"
      | .panic s => s!"panic {s}"
    | _, _ => "bad-op"
  | _ => "bad-op"

def showSOp : SOp → String
  | .eq => "eq" | .ne => "ne" | .gt => "gt" | .ge => "ge" | .lt => "lt" | .le => "le"
  | .isIn => "in" | .notIn => "notin" | .contains => "ct" | .notContains => "notct"

def showOp : Op → String
  | .eq => "eq" | .exactEq => "xeq" | .ne => "ne" | .tilde => "tilde" | .lt => "lt" | .le => "le"
  | .gt => "gt" | .ge => "ge" | .eqStar => "eqs" | .neStar => "nes"

def showRelRaw (r : List Nat) : String := ".".intercalate (r.map toString)

def showVKey : VKey → String
  | .implVer => "iv" | .pfv => "pfv" | .pyVer => "pv"

def showMExpr : MExpr → String
  | .version k s => s!"V {showVKey k} {showOp s.op} {showRelRaw s.rel}"
  | .versionIn k vs neg => s!"VI {showVKey k} {if neg then 1 else 0} {vs.length}" ++ String.join (vs.map fun v => " " ++ showRelRaw v)
  | .string k op v => s!"S {k.idx} {showSOp op} {hexOfBytes' (bytesOfString v)}"
  | .extra neg (.extra n) => s!"X {if neg then 1 else 0} e {hexOfBytes' (bytesOfString n)}"
  | .extra neg (.arbitrary n) => s!"X {if neg then 1 else 0} a {hexOfBytes' (bytesOfString n)}"

/-- `eparse <text> <alpha> <entries…>`: `MarkerExpression::parse_reporter` -/
def runEparse (args : List String) : String :=
  match args with
  | text :: alpha :: entries =>
    match charsOfHex text, parseExtArgs alpha (entries.flatMap (·.splitOn " ")) with
    | some t, some x =>
      match parseExpression x t with
      | .ok (some e, ws) => s!"ok {showMExpr e} w={showWarns ws}"
      | .ok (none, ws) => s!"ok none w={showWarns ws}"
      | .err e => s!"err {e.start} {e.len}"
      | .panic s => s!"panic {s}"
    | _, _ => "bad-op"
  | _ => "bad-op"

end Pep508.Driver
