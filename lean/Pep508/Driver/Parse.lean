import Pep508.Driver.Marker
import Pep508.Model.MarkerParse
import Pep508.Model.ReqParse
import Pep508.Model.ReqShow
import Pep508.Model.Unnamed
import Pep508.Model.ErrDisplay
import Pep508.Model.Dnf
import Pep508.Model.TopLevelExtra
import Pep508.Model.Interner
import Pep508.Model.InternerOps
import Pep508.Model.InternerPy
import Pep508.Model.Kind
import Pep508.Model.Path
namespace Pep508.Driver
open Pep508

def charsOfHex (h : String) : Option (List Char) := (parseStr h).map (·.toList)

/-- `<hex>:<ver>:<pat>` with ver = `-` | `rel/l`, pat = `-` | `rel/l/s` -/
structure ExtEntry where
  text : List Char
  ver : Option VerInfo
  pat : Option (VerInfo × Bool)

def parseVerInfo (s : String) : Option VerInfo :=
  match s.splitOn "/" with
  | [r, l] => (parseRel r).map fun rel => ⟨rel, l == "1"⟩
  | _ => none

def parseExtEntry (s : String) : Option ExtEntry :=
  match s.splitOn ":" with
  | [h, v, p] => do
    let text ← charsOfHex h
    let ver := if v == "-" then none else parseVerInfo v
    let pat := if p == "-" then none else
      match p.splitOn "/" with
      | [r, l, st] => (parseRel r).map fun rel => (⟨rel, l == "1"⟩, st == "1")
      | _ => none
    pure ⟨text, ver, pat⟩
  | _ => none

def mkExt (alpha : List Char) (es : List ExtEntry) : Ext where
  ver := fun t => (es.find? (·.text == t)).bind (·.ver)
  pat := fun t => (es.find? (·.text == t)).bind (·.pat)
  alpha := fun c => (c.toNat < 128 && c.isAlpha) || alpha.contains c

def showWarn : WarnKind → String
  | .deprecatedMarkerName => "D" | .extraInvalidComparison => "X" | .lexicographicComparison => "L"
  | .markerMarkerComparison => "M" | .pep440Error => "P" | .stringStringComparison => "S"

def showWarns (ws : List WarnKind) : String :=
  if ws.isEmpty then "-" else String.join (ws.map showWarn)

def parseExtArgs (alpha : String) (entries : List String) : Option Ext := do
  let a ← charsOfHex alpha
  let es ← (entries.filter (fun e => e ≠ "" && e ≠ "-")).mapM parseExtEntry
  pure (mkExt a es)

/-- `mparse <text> <alpha> <entries…>` ↦ `ok <dump> w=<kinds>` | `err <start> <len>` | `panic` -/
def runMparse (args : List String) : String :=
  match args with
  | text :: alpha :: entries =>
    match charsOfHex text, parseExtArgs alpha (entries.flatMap (·.splitOn " ")) with
    | some t, some x =>
      match parseMarkers x t with
      | .ok (tr, ws) => s!"ok {dumpTree tr} w={showWarns ws}"
      | .err e => s!"err {e.start} {e.len}"
      | .panic s => s!"panic {s}"
    | _, _ => "bad-op"
  | _ => "bad-op"

def showSOp : SOp → String
  | .eq => "eq" | .ne => "ne" | .gt => "gt" | .ge => "ge" | .lt => "lt" | .le => "le"
  | .isIn => "in" | .notIn => "notin" | .contains => "ct" | .notContains => "notct"

def showOp : Op → String
  | .eq => "eq" | .exactEq => "xeq" | .ne => "ne" | .tilde => "tilde" | .lt => "lt" | .le => "le"
  | .gt => "gt" | .ge => "ge" | .eqStar => "eqs" | .neStar => "nes"

def showRelRaw (r : List Nat) : String := ".".intercalate (r.map toString)

def showVKey : VKey → String
  | .implVer => "iv" | .pfv => "pfv" | .pyVer => "pv"

def showMExpr : MExpr → String
  | .version k s => s!"V {showVKey k} {showOp s.op} {showRelRaw s.rel}"
  | .versionIn k vs neg => s!"VI {showVKey k} {if neg then 1 else 0} {vs.length}" ++ String.join (vs.map fun v => " " ++ showRelRaw v)
  | .string k op v => s!"S {k.idx} {showSOp op} {hexOfBytes' (bytesOfString v)}"
  | .extra neg (.extra n) => s!"X {if neg then 1 else 0} e {hexOfBytes' (bytesOfString n)}"
  | .extra neg (.arbitrary n) => s!"X {if neg then 1 else 0} a {hexOfBytes' (bytesOfString n)}"

/-- `eparse <text> <alpha> <entries…>`: `MarkerExpression::parse_reporter` -/
def runEparse (args : List String) : String :=
  match args with
  | text :: alpha :: entries =>
    match charsOfHex text, parseExtArgs alpha (entries.flatMap (·.splitOn " ")) with
    | some t, some x =>
      match parseExpression x t with
      | .ok (some e, ws) => s!"ok {showMExpr e} w={showWarns ws}"
      | .ok (none, ws) => s!"ok none w={showWarns ws}"
      | .err e => s!"err {e.start} {e.len}"
      | .panic s => s!"panic {s}"
    | _, _ => "bad-op"
  | _ => "bad-op"

end Pep508.Driver

namespace Pep508.Driver
open Pep508

def hexOfChars (s : List Char) : String := hexOfBytes' (bytesOfString (String.ofList s))

def showErrKind : ErrKind → String
  | .string => "string" | .url => "url" | .unsupported => "unsupported"

def showCall : ExtCall → String
  | .spec t s l => s!"s:{hexOfChars t}:{s}:{l}"
  | .url t s l => s!"u:{hexOfChars t}:{s}:{l}"

def parseProcEnv (vars cwd : String) : Option ProcEnv := do
  let cwd ← charsOfHex cwd
  let vs ← if vars == "-" then some [] else
    (vars.splitOn ",").mapM fun kv =>
      match kv.splitOn "=" with
      | [k, v] => do let v ← charsOfHex v; pure (k.toList, v)
      | _ => none
  pure ⟨vs, cwd⟩

def showReqKind : ReqKind → String
  | .none => "none"
  | .specs ts => s!"specs:{ts.length}"
  | .url _ => "url"

/-- `req <text> <alpha> <table> <vars> <cwd>` ↦ `calls=… <TAB> then=…` (stage 1, see harness post-processing) -/
def runReq (args : List String) : String :=
  match args with
  | [text, alpha, table, vars, cwd] =>
    match charsOfHex text, parseExtArgs alpha (table.splitOn " "), parseProcEnv vars cwd with
    | some t, some x, some env =>
      let out := parseRequirement env x t
      let calls := if out.calls.isEmpty then "-" else ",".intercalate (out.calls.map showCall)
      let showOk := fun (r : ReqOk) =>
          let extras := if r.extras.isEmpty then "-" else ";".intercalate (r.extras.map hexOfBytes')
          s!"ok name={hexOfBytes' r.name} extras={extras} kind={showReqKind r.kind} marker={dumpTree r.marker} w={showWarns r.warns}"
      let fin := match out.fin with
        | .ok r => showOk r
        | .urlEndsOk alts r =>
          "urlendsok " ++ " ".intercalate (alts.map fun (ce : Char × PErr) => s!"{ce.1.toNat}:{showErrKind ce.2.kind}:{ce.2.start}:{ce.2.len}") ++
            " else:" ++ showOk r
        | .err e => s!"err {showErrKind e.kind} {e.start} {e.len}"
        | .panic s => s!"panic {s}"
        | .urlEnds alts other =>
          "urlends " ++ " ".intercalate (alts.map fun (ce : Char × PErr) => s!"{ce.1.toNat}:{showErrKind ce.2.kind}:{ce.2.start}:{ce.2.len}") ++
            s!" else:{showErrKind other.kind}:{other.start}:{other.len}"
      s!"calls={calls}\tthen={fin}"
    | _, _, _ => "bad-op"
  | _ => "bad-op"

/-- `showreq <name> <extras ;-separated hex or -> <kind: none | s:<hex;hex…> | u:<hex>> <marker hex or none>`:
    `Display for Requirement` over already rendered components -/
def runShowReq (args : List String) : String :=
  match args with
  | [name, extras, kind, marker] =>
    let hexList := fun (s : String) => if s == "-" then some [] else (s.splitOn ";").mapM charsOfHex
    let k : Option ShowKind :=
      if kind == "none" then some .none
      else if kind.startsWith "s:" then (hexList (kind.drop 2).toString).map .specs
      else if kind.startsWith "u:" then (charsOfHex (kind.drop 2).toString).map .url
      else none
    let m : Option (Option (List Char)) := if marker == "none" then some none else (charsOfHex marker).map some
    match charsOfHex name, hexList extras, k, m with
    | some n, some ex, some k, some m => hexOfChars (showReq ⟨n, ex, k, m⟩)
    | _, _, _, _ => "bad-op"
  | _ => "bad-op"

/-- `errdisp <input> <start> <len> <widths>`: the underline `Display for Pep508Error` prints;
    `widths` gives `unicode_width` of each char of the input (`0`,`1`,`2`, `n` = none), an external function -/
def runErrDisp (args : List String) : String :=
  match args with
  | [input, start, len, widths] =>
    match charsOfHex input, start.toNat?, len.toNat? with
    | some inp, some s, some l =>
      let ws := (if widths == "-" then [] else widths.toList).map fun c => if c == 'n' then 0 else c.toNat - 48
      let width := fun (from_ : Nat) (t : List Char) => ((ws.drop from_).take t.length).sum
      match errDisplaySlices inp s l with
      | none => "panic"
      | some (pre, none) => s!"ul={width 0 pre}:1"
      | some (pre, some u) => s!"ul={width 0 pre}:{width pre.length u}"
    | _, _, _ => "bad-op"
  | _ => "bad-op"

/-- `unnamed <text> <alpha> <table> <vars> <cwd>` ↦ `call=<kind>:<hex>:<start>:<len> <TAB> then=…` (stage 1) -/
def runUnnamed (args : List String) : String :=
  match args with
  | [text, alpha, table, vars, cwd] =>
    match charsOfHex text, parseExtArgs alpha (table.splitOn " "), parseProcEnv vars cwd with
    | some t, some x, some env =>
      let out := parseUnnamed env x t
      let call := match out.call with
        | none => "-"
        | some c =>
          let k := match c.kind with | .file => "file" | .url => "url" | .path => "path"
          s!"{k}:{hexOfChars c.text}:{c.start}:{c.len}"
      let fin := match out.fin with
        | .ok r =>
          let extras := if r.extras.isEmpty then "-" else ";".intercalate (r.extras.map hexOfBytes')
          s!"ok given={hexOfChars r.given} extras={extras} marker={dumpTree r.marker} w={showWarns r.warns}"
        | .err e => s!"err {showErrKind e.kind} {e.start} {e.len}"
        | .panic s => s!"panic {s}"
      s!"call={call}\tthen={fin}"
    | _, _, _ => "bad-op"
  | _ => "bad-op"

/-- `showunnamed <url> <extras ;-separated hex (normalized names) or -> <marker hex or none>`: `Display for UnnamedRequirement` -/
def runShowUnnamed (args : List String) : String :=
  match args with
  | [url, extras, marker] =>
    let hexList := fun (s : String) => if s == "-" then some [] else (s.splitOn ";").mapM charsOfHex
    let m : Option (Option (List Char)) := if marker == "none" then some none else (charsOfHex marker).map some
    match charsOfHex url, hexList extras, m with
    | some u, some ex, some m => hexOfChars (showUnnamed u ex m)
    | _, _, _ => "bad-op"
  | _ => "bad-op"

/-- `expand <text> <vars> <cwd>`: `expand_env_vars` -/
def runExpand (args : List String) : String :=
  match args with
  | [text, vars, cwd] =>
    match charsOfHex text, parseProcEnv vars cwd with
    | some t, some env => hexOfChars (expandEnvVars env t)
    | _, _ => "bad-op"
  | _ => "bad-op"

/-- `urlhelpers <text>`: split_scheme / split_extras / looks_like_archive -/
def runUrlHelpers (args : List String) : String :=
  match args with
  | [text] =>
    match charsOfHex text with
    | some t =>
      let sch := match splitScheme t with | some (a, b) => s!"{hexOfChars a}:{hexOfChars b}" | none => "none"
      let ext := match splitExtras t with | some (a, b) => s!"{hexOfChars a}:{hexOfChars b}" | none => "none"
      s!"scheme={sch} extras={ext} strip={hexOfChars (stripHost t)} archive={if looksLikeArchive t then 1 else 0}"
    | none => "bad-op"
  | _ => "bad-op"

/-- `pathnorm <hex text>`: `VerbatimUrl::from_absolute_path` up to the URL conversion -/
def runPathNorm (args : List String) : String :=
  match args with
  | [text] =>
    match charsOfHex text with
    | some t =>
      match fromAbsolutePath t with
      | .ok p f => s!"ok {hexOfChars p} {match f with | some f => hexOfChars f | none => "none"}"
      | .relative => "relative"
      | .escapes => "escapes"
    | none => "bad-op"
  | _ => "bad-op"

end Pep508.Driver

namespace Pep508.Driver
open Pep508

/-- `norm=spelled,…` (release lists with dots; `-` = empty table) -/
def parseSpell (s : String) : Option Spell :=
  if s == "-" then some id else do
    let pairs ← (s.splitOn ",").mapM fun kv =>
      match kv.splitOn "=" with
      | [k, v] => do let k ← parseRel k; let v ← parseRel v; pure (stripZeros k, v)
      | _ => none
    pure fun r => match pairs.find? (·.1 == r) with
      | some (_, v) => v
      | none => if r.isEmpty then [0] else r

def showClause (c : List MExpr) : String := " & ".intercalate (c.map showMExpr)

/-- `dnf <term> <spell>` ↦ clauses -/
def runDnf (args : List String) : String :=
  match args with
  | [t, sp] =>
    match parseTerm t, parseSpell sp with
    | some tr, some spell =>
      let d := toDnf spell tr
      if d.isEmpty then "empty" else " | ".intercalate (d.map showClause)
    | _, _ => "bad-op"
  | _ => "bad-op"

/-- `tle <term> <spell>` ↦ the expression `top_level_extra()` returns, or `none` -/
def runTle (args : List String) : String :=
  match args with
  | [t, sp] =>
    match parseTerm t, parseSpell sp with
    | some tr, some spell =>
      match topLevelExtra spell tr with
      | some e => showMExpr e
      | none => "none"
    | _, _ => "bad-op"
  | _ => "bad-op"

/-- `show <term> <spell>` ↦ hex of the `Display` text (`-` for TRUE, which has no contents) -/
def runShow (args : List String) : String :=
  match args with
  | [t, sp] =>
    match parseTerm t, parseSpell sp with
    | some tr, some spell => if tr == .leaf true then "none" else hexOfBytes' (bytesOfString (showMarker spell tr))
    | _, _ => "bad-op"
  | _ => "bad-op"

end Pep508.Driver

namespace Pep508.Driver
open Pep508

/-- `iand <t1> <t2> <warm1> <warm2> …`: the id-level `and` after loading the operands (and,
    before them, unrelated warm-up diagrams, and their pairwise conjunctions) into one arena;
    answers the dump of the denotation, whether it equals `Tree.and`, whether running it a
    second time (cache hit) gives the same id, and whether `b and a` gets the same id -/
def runIand (args : List String) : String :=
  match args.mapM parseTerm with
  | some (a :: b :: warm) =>
    let s0 : IState VarR VarB Val := IState.empty
    -- warm-up history
    let (s1, wids) := warm.foldl (fun (acc : IState VarR VarB Val × List Id) t =>
      let (s, i) := internTree acc.1 t; (s, acc.2 ++ [i])) (s0, [])
    let s2 := wids.foldl (fun s i => wids.foldl (fun s j => (andI (s.nodes.length * 4 + 64) s i j).1) s) s1
    let (s3, ia) := internTree s2 a
    let (s4, ib) := internTree s3 b
    let fuel := (a.size + b.size + 1) * 2 + 8
    let (s5, r) := andI fuel s4 ia ib
    let (s6, r2) := andI fuel s5 ia ib
    let (s7, r3) := andI fuel s6 ib ia
    let d := denote s5 (s5.nodes.length + 1) r
    let plain := Tree.and a b
    -- the same operands in a fresh arena, opposite load order
    let (t1, jb) := internTree s0 b
    let (t2, ja) := internTree t1 a
    let (t3, q) := andI fuel t2 ja jb
    let d' := denote t3 (t3.nodes.length + 1) q
    let _ := s7
    s!"{dumpTree d}\teq={if d == plain then 1 else 0}\thit={if r2 == r then 1 else 0}\tcomm={if r3 == r then 1 else 0}\tfresh={if d' == d then 1 else 0}\tinj={if (denote s4 (s4.nodes.length + 1) ia == denote s4 (s4.nodes.length + 1) ib) == (ia == ib) then 1 else 0}"
  | _ => "bad-op"

end Pep508.Driver

namespace Pep508.Driver
open Pep508

/-- `iops <n> <hex names…> <t1> <t2> <warm1> …`: the other id-level operations on a warmed arena —
    `restrict` (as `simplify_extras(names)` uses it) of `t1` after the warm-up diagrams were restricted
    under OTHER predicates, negation, `is_disjoint(t1, t2)`.  Answers the dump of the restricted
    denotation, whether it equals `Tree.restrict`, whether a second run in the later state returns
    the same id, whether a fresh arena gives the same diagram, whether `not` denotes `Tree.not`,
    and the id-level / diagram-level disjointness verdicts -/
def runIops (args : List String) : String :=
  match args with
  | n :: rest =>
    match n.toNat? with
    | none => "bad-op"
    | some n =>
      match (rest.take n).mapM parseStr, (rest.drop n).mapM parseTerm with
      | some names, some (a :: b :: warm) =>
        let pred (ns : List String) : VarB → Option Bool := fun v =>
          match v with
          | .extra (.extra e) => if ns.contains e then some true else none
          | _ => none
        let f := pred names
        let s0 : IState VarR VarB Val := IState.empty
        let (s1, wids) := warm.foldl (fun (acc : IState VarR VarB Val × List Id) t =>
          let (s, i) := internTree acc.1 t; (s, acc.2 ++ [i])) (s0, [])
        -- history: the warm-up diagrams (and the operand itself, later) restricted under other predicates
        let others : List (List String) := [["docs"], ["dev", "test"], [], names ++ ["zz"]]
        let s2 := wids.foldl (fun s i => others.foldl (fun s ns => (restrictI (pred ns) (s.nodes.length + 2) s i).1) s) s1
        let (s3, ia) := internTree s2 a
        let (s4, ib) := internTree s3 b
        let s5 := others.foldl (fun s ns => (restrictI (pred ns) (s.nodes.length + 2) s ia).1) s4
        let fuel := a.size + 2
        let (s6, r) := restrictI f fuel s5 ia
        let (s7, r2) := restrictI f (s6.nodes.length + 2) s6 ia
        let d := denote s6 (s6.nodes.length + 1) r
        let (t1, ja) := internTree s0 a
        let (t2, q) := restrictI f fuel t1 ja
        let d' := denote t2 (t2.nodes.length + 1) q
        let nd := denote s7 (s7.nodes.length + 1) (notI s7 ia).2
        let dj := isDisjointI (a.size + b.size + 2) s7 ia ib
        let dj' := isDisjointI (a.size + b.size + 2) s7 ib ia
        s!"{dumpTree d}\teq={if d == a.restrict f then 1 else 0}\tagain={if r2 == r then 1 else 0}\tfresh={if d' == d then 1 else 0}\tnot={if nd == a.not then 1 else 0}\tdisj={if dj then 1 else 0}{if dj' then 1 else 0}\ttree={if a.isDisjoint b then 1 else 0}"
      | _, _ => "bad-op"
  | _ => "bad-op"

/-- `ipy <s|c> <lo> <hi> <t> <warm1> …`: the id-level `simplify_python_versions` (`s`) /
    `complexify_python_versions` (`c`) on a warmed arena (the warm-up diagrams were simplified and
    complexified under OTHER ranges first).  Answers the dump of the denotation, whether it equals the
    diagram-level function, whether a second run in the later state returns the same id, whether a
    fresh arena gives the same diagram -/
def runIpy (args : List String) : String :=
  match args with
  | kind :: lo :: hi :: rest =>
    match parseBound verVal lo, parseBound verVal hi, rest.mapM parseTerm with
    | some lo, some hi, some (a :: warm) =>
      let op (l h : Bnd Val) (n : Nat) (s : IState VarR VarB Val) (x : Id) :=
        if kind == "s" then simplifyPyI pfvVar l h n s x else complexifyPyI pfvVar l h n s x
      let s0 : IState VarR VarB Val := IState.empty
      let (s1, wids) := warm.foldl (fun (acc : IState VarR VarB Val × List Id) t =>
        let (s, i) := internTree acc.1 t; (s, acc.2 ++ [i])) (s0, [])
      let others : List (Bnd Val × Bnd Val) :=
        [(.incl (.ver [3, 8]), .unb), (.unb, .excl (.ver [3, 10])), (.excl (.ver [3, 7]), .incl (.ver [3, 12])), (hi, lo)]
      let s2 := wids.foldl (fun s i => others.foldl (fun s b =>
        let s' := (simplifyPyI pfvVar b.1 b.2 (s.nodes.length + 2) s i).1
        (complexifyPyI pfvVar b.1 b.2 (s'.nodes.length + 10) s' i).1) s) s1
      let (s3, ia) := internTree s2 a
      let fuel := a.size + 9
      let (s4, r) := op lo hi fuel s3 ia
      let (s5, r2) := op lo hi (s4.nodes.length + 10) s4 ia
      let d := denote s4 (s4.nodes.length + 1) r
      let (t1, ja) := internTree s0 a
      let (t2, q) := op lo hi fuel t1 ja
      let d' := denote t2 (t2.nodes.length + 1) q
      let plain := if kind == "s" then a.simplifyPy pfvVar lo hi else a.complexifyPy pfvVar lo hi
      let _ := s5
      s!"{dumpTree d}\teq={if d == plain then 1 else 0}\tagain={if r2 == r then 1 else 0}\tfresh={if d' == d then 1 else 0}"
    | _, _, _ => "bad-op"
  | _ => "bad-op"

/-- `cmp <t1> <t2>` ↦ lt | eq | gt (and structural equality) -/
def runCmp (args : List String) : String :=
  match args.mapM parseTerm with
  | some [a, b] =>
    let o := match Tree.cmp a b with | .lt => "lt" | .eq => "eq" | .gt => "gt"
    s!"{o} {if a == b then 1 else 0}"
  | _ => "bad-op"

end Pep508.Driver
