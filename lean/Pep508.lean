import Pep508.Model.Names
import Pep508.Proofs.Names
import Pep508.Theorems.C09
