"""Per-property wiring for check.py: Lean targets, property theorems, harness suites."""

T = "Pep508."
PROPS = {
    "C09": {
        "lean_targets": ["Pep508.Theorems.C09"],
        "theorems": [
            "Pep508.Names.C09.accept_iff_valid",
            "Pep508.Names.C09.stored_is_normal_form",
            "Pep508.Names.C09.owned_eq_borrowed",
            "Pep508.Names.C09.idempotent",
            "Pep508.Names.C09.eq_iff_norm_eq",
            "Pep508.Names.C09.dist_info",
            "Pep508.Names.C09.empty_rejected",
        ],
        "suites": [{"name": "names"}],
        "rule": "all strings of length <= 5 (quick) / 6 (thorough) over one representative per character class "
                "{lower, upper, digit, '-', '_', '.', space, non-ASCII}, plus seeded random names of length <= 40 over a wider "
                "alphabet with a hostile stream; each string goes through PackageName::new / from_str / serde and the ExtraName "
                "twins, as_dist_info_name, and the Lean model; non-trivial = accepted by the implementation; distinct by text",
        "trusted": ["String::bytes / to_ascii_lowercase / serde_json string decoding are not modelled"],
        "assumptions": ["names are modelled as byte lists; the model's Nat bytes are unbounded (the property does not depend on < 256)"],
    },
}
