"""Per-property wiring for check.py: Lean targets, property theorems, harness suites."""

T = "Pep508."
PROPS = {
    "C09": {
        "lean_targets": ["Pep508.Theorems.C09"],
        "theorems": [
            "Pep508.Names.C09.accept_iff_valid",
            "Pep508.Names.C09.stored_is_normal_form",
            "Pep508.Names.C09.owned_eq_borrowed",
            "Pep508.Names.C09.idempotent",
            "Pep508.Names.C09.eq_iff_norm_eq",
            "Pep508.Names.C09.dist_info",
            "Pep508.Names.C09.empty_rejected",
        ],
        "suites": [{"name": "names"}],
        "rule": "all strings of length <= 5 (quick) / 6 (thorough) over one representative per character class "
                "{lower, upper, digit, '-', '_', '.', space, non-ASCII}, plus seeded random names of length <= 40 over a wider "
                "alphabet with a hostile stream; each string goes through PackageName::new / from_str / serde and the ExtraName "
                "twins, as_dist_info_name, and the Lean model; non-trivial = accepted by the implementation; distinct by text",
        "trusted": ["String::bytes / to_ascii_lowercase / serde_json string decoding are not modelled"],
        "assumptions": ["names are modelled as byte lists; the model's Nat bytes are unbounded (the property does not depend on < 256)"],
    },
    "C02": {
        "lean_targets": ["Pep508.Theorems.C02"],
        "theorems": [
            "Pep508.C02.eval_and", "Pep508.C02.eval_or", "Pep508.C02.eval_not",
            "Pep508.C02.OK_and", "Pep508.C02.OK_or", "Pep508.C02.OK_not",
            "Pep508.C02.and_true_left", "Pep508.C02.and_true_right", "Pep508.C02.and_false_left",
            "Pep508.C02.and_false_right", "Pep508.C02.and_self", "Pep508.C02.and_not_self",
            "Pep508.C02.or_false_left", "Pep508.C02.or_true_left",
            "Pep508.C02.eval_build", "Pep508.C02.eval_and_of_wf", "Pep508.Tree.OK_of_wf",
        ],
        "suites": [{"name": "algebra", "args": ["C02"]}],
        "rule": "a pool of markers is built through the real API along random construction paths (parse-free typed expressions, and/or/negate, "
                "simplify_extras, simplify/complexify_python_versions, plus shapes generated on purpose: >=3 edges whose children coincide after an op, "
                "python_full_version below/above other variables); and/or/negate are applied to random pairs one step from LITERAL operands (the operand's "
                "kind() dump is what the Lean model receives), result dumps are compared with the model, results are evaluated on region environments "
                "(one value below/at/above every literal) and compared pointwise with the operands' values; identities/annihilators checked structurally; "
                "non-trivial = distinct (op, operand dumps) case",
        "trusted": ["values are an arbitrary linear order in the theorems; the driver instantiates them with release lists / strings (Val)"],
        "assumptions": ["memoisation (the AND cache) and hash-consing are not part of this model; they are the subject of C14"],
    },
}
