"""Per-property wiring for check.py: Lean targets, property theorems, harness suites."""

T = "Pep508."
PROPS = {
    "C09": {
        "lean_targets": ["Pep508.Theorems.C09", "Pep508.Theorems.NonVacuityD"],
        "theorems": [
            "Pep508.Names.C09.accept_iff_valid",
            "Pep508.Names.C09.stored_is_normal_form",
            "Pep508.Names.C09.owned_eq_borrowed",
            "Pep508.Names.C09.idempotent",
            "Pep508.Names.C09.eq_iff_norm_eq",
            "Pep508.Names.C09.dist_info",
            "Pep508.Names.C09.empty_rejected",
        ],
        "suites": [{"name": "names"}],
        "rule": "all strings of length <= 5 (quick) / 6 (thorough) over one representative per character class "
                "{lower, upper, digit, '-', '_', '.', space, non-ASCII}, plus seeded random names of length <= 40 over a wider "
                "alphabet with a hostile stream; each string goes through PackageName::new / from_str / serde and the ExtraName "
                "twins, as_dist_info_name, and the Lean model; non-trivial = accepted by the implementation; distinct by text",
        "trusted": ["String::bytes / to_ascii_lowercase / serde_json string decoding are not modelled"],
        "assumptions": ["names are modelled as byte lists; the model's Nat bytes are unbounded (the property does not depend on < 256)"],
    },
    "C02": {
        "lean_targets": ["Pep508.Theorems.C02", "Pep508.Theorems.NonVacuityA"],
        "theorems": [
            "Pep508.C02.eval_and", "Pep508.C02.eval_or", "Pep508.C02.eval_not",
            "Pep508.C02.OK_and", "Pep508.C02.OK_or", "Pep508.C02.OK_not",
            "Pep508.C02.and_true_left", "Pep508.C02.and_true_right", "Pep508.C02.and_false_left",
            "Pep508.C02.and_false_right", "Pep508.C02.and_self", "Pep508.C02.and_not_self",
            "Pep508.C02.or_false_left", "Pep508.C02.or_true_left",
            "Pep508.C02.eval_build", "Pep508.C02.eval_and_of_wf", "Pep508.Tree.OK_of_wf",
        ],
        "suites": [{"name": "algebra", "args": ["C02"]}],
        "rule": "a pool of markers is built through the real API along random construction paths (parse-free typed expressions, and/or/negate, "
                "simplify_extras, simplify/complexify_python_versions, plus shapes generated on purpose: >=3 edges whose children coincide after an op, "
                "python_full_version below/above other variables); and/or/negate are applied to random pairs one step from LITERAL operands (the operand's "
                "kind() dump is what the Lean model receives), result dumps are compared with the model, results are evaluated on region environments "
                "(one value below/at/above every literal) and compared pointwise with the operands' values; identities/annihilators checked structurally; "
                "non-trivial = distinct (op, operand dumps) case",
        "trusted": ["values are an arbitrary linear order in the theorems; the driver instantiates them with release lists / strings (Val)"],
        "assumptions": ["memoisation (the AND cache) and hash-consing are not part of this model; they are the subject of C14"],
    },
    "C03": {
        "lean_targets": ["Pep508.Theorems.C12c", "Pep508.Theorems.C03", "Pep508.Theorems.C03b", "Pep508.Theorems.NonVacuityA"],
        "theorems": ["Pep508.and_comm_all", 
            "Pep508.C03.canonical_relative", "Pep508.C03.equal_iff_same_function_val", "Pep508.C03.is_true_iff_val", "Pep508.C03.is_false_iff_val",
            "Pep508.C03.val_not_dense_unbounded", "Pep508.C03.lt_zero_constantly_false", "Pep508.C03.str_gap_constantly_false",
            "Pep508.C03.failure_shapes_not_separated", "Pep508.C03.relative_generalises_dense", "Pep508.C03.bounds_and", "Pep508.C03.bounds_or", "Pep508.C03.bounds_not",
            "Pep508.C03.expression_bounds_normalized", "Pep508.C03.sep_of_norm",
            "Pep508.canonical", "Pep508.C03.equal_iff_same_function", "Pep508.C03.is_true_iff", "Pep508.C03.is_false_iff",
            "Pep508.C03.and_comm_of_wf", "Pep508.partition_unique", "Pep508.Tree.eval_agree",
        ],
        "suites": [{"name": "algebra", "args": ["C03"]}],
        "rule": "a pool of markers is built through the real API along random construction paths (typed expressions, and/or/negate, simplify_extras, "
                "simplify/complexify_python_versions, plus shapes generated on purpose: >=3 edges whose children coincide after an op, python_full_version "
                "below/above other variables); (1) every operation is applied one step from literal operands and the result dump compared with the model; "
                "(2) ten algebraic laws (commutativity, associativity, distributivity both ways, absorption, De Morgan, double negation, excluded middle) are "
                "instantiated with pool markers: both sides are built through the API and must be == with equal hash and Ordering::Equal; (3) groups of 14 markers "
                "over a small variable set get EXHAUSTIVE truth tables over the joint abstract grid (one region per gap/point of the bounds of each version/string "
                "variable, one free boolean per in/contains/extra variable, evaluated by walking kind()): same table <=> == , and is_true/is_false exactly for the "
                "constant tables; non-trivial = distinct op case / law instance / marker in an exhaustively tabulated group",
        "trusted": ["the value order is assumed dense without end points in `canonical` (DESIGN §7 C03 names what falls outside: an edge below the domain minimum, "
                    "or between adjacent strings); Eq/Hash on NodeId = structural equality of the kind() view is the subject of C14"],
        "assumptions": ["`wf` of the operands: C20", "generic theorem: dense order without end points (instance Rat); at Val: bounds separated from version 0 and from NUL-terminated strings (failure shapes proved)"],
    },
    "C20": {
        "lean_targets": ["Pep508.Theorems.Tables", "Pep508.Theorems.C20", "Pep508.Theorems.NonVacuityA"],
        "theorems": ["Pep508.Tables.variable_order", "Pep508.Tables.string_key_order", "Pep508.Tables.version_key_order", 
            "Pep508.C20.wf_true", "Pep508.C20.wf_false", "Pep508.C20.wf_and", "Pep508.C20.wf_or", "Pep508.C20.wf_not",
            "Pep508.C20.apply_ranges_nonempty", "Pep508.C20.wf_covers", "Pep508.PartL_product", "Pep508.partitionFrom_coalesce",
            "Pep508.wf_node_map", "Pep508.wf_createNodeR",
            "Pep508.C20.wf_restrict", "Pep508.C20.wf_simplify", "Pep508.C20.wf_complexify", "Pep508.C20.wf_range_atom",
            "Pep508.C20.reach_wf", "Pep508.simplifyEdges_ne_nil", "Pep508.Part_complexifyEdges", "Pep508.Part_simplifyEdges",
        ],
        "suites": [{"name": "algebra", "args": ["C20"]}],
        "rule": "a pool of markers is built through the real API along random construction paths (typed expressions, and/or/negate, simplify_extras, "
                "simplify/complexify_python_versions, plus shapes generated on purpose); for every pool marker (a) a Rust re-implementation of the property text walks "
                "kind() (order, partition, adjacent children, no all-equal node), (b) the Lean predicate Tree.wf is evaluated by the driver on the dump, (c) edges are "
                "chosen by hand on region environments and compared with evaluate(); then every operation (and/or/not/simplify_extras/simplify/complexify) is applied "
                "one step from literal operands, the result dump compared with the model and checked again; non-trivial = distinct op case",
        "trusted": [],
        "assumptions": [],
    },
    "C04": {
        "lean_targets": ["Pep508.Theorems.C04b", "Pep508.Theorems.C04", "Pep508.Theorems.NonVacuityA"],
        "theorems": ["Pep508.C04.is_disjoint_exact_val", "Pep508.C04.is_disjoint_complete_val", "Pep508.C04.is_disjoint_val_needs_sep", "Pep508.C04.nv_exact_disjoint", "Pep508.C04.nv_exact_overlap", "Pep508.C04.is_disjoint_sound", "Pep508.C04.is_disjoint_symm", "Pep508.C04.is_disjoint_iff_and_false",
                     "Pep508.C04.is_false_sound", "Pep508.C04.is_true_sound", "Pep508.C04.and_false_sound",
                     "Pep508.isDisjointF_sound", "Pep508.isDisjointF_comm", "Pep508.isDisjointF_iff_andF"],
        "suites": [{"name": "algebra", "args": ["C04"]}],
        "rule": "a pool of markers is built through the real API along random construction paths (typed expressions, and/or/negate, simplify_extras, "
                "simplify/complexify_python_versions, plus shapes generated on purpose); pairs (biased towards related operands: a vs not a, a vs (not a and c)) go through is_disjoint in both orders and through (a and b).is_false(); "
                "the three verdict bits are compared with the model on literal operands; verdicts are checked against region environments (disjoint => no environment "
                "satisfies both; is_false/is_true => none/all); non-trivial = pairs reported disjoint",
        "trusted": [], "assumptions": [],
    },
    "C11": {
        "lean_targets": ["Pep508.Theorems.C11b", "Pep508.Theorems.C11", "Pep508.Theorems.C05", "Pep508.Theorems.C05b", "Pep508.Theorems.NonVacuityA"],
        "theorems": ["Pep508.C11.top_level_extra_shape", "Pep508.C11.top_level_extra_gates", "Pep508.C11.top_level_extra_gates_built", "Pep508.C11.top_level_extra_none_true", "Pep508.C11.top_level_extra_none_false", "Pep508.C11.nv_gates", "Pep508.C11.restrict_eval", "Pep508.C11.restrict_independent", "Pep508.C11.not_mentioned_irrelevant",
                     "Pep508.C11.with_extra_marker_eval", "Pep508.C11.extra_expr_eval", "Pep508.OK_restrict", "Pep508.C05.common_term_holds_norm"],
        "suites": [{"name": "algebra", "args": ["C11"]}, {"name": "algebra", "args": ["C05"]}],
        "rule": "a pool of markers is built through the real API along random construction paths (typed expressions, and/or/negate, simplify_extras, "
                "simplify/complexify_python_versions, plus shapes generated on purpose); simplify_extras(E) with 1-2 extras (spellings of one normal form included) is applied one step from literal operands and compared with the model; "
                "the result is evaluated on region environments against the original on S union E and its dump is searched for variables of E; extra == 'N' / != 'N' atoms "
                "in every spelling (valid, invalid, empty) are compared with the model and with normalized-name membership; non-trivial = distinct op case",
        "trusted": ["top_level_extra is decided by the DNF model (C05)"], "assumptions": [],
    },
    "C13": {
        "lean_targets": ["Pep508.Theorems.C13c", "Pep508.Theorems.C13", "Pep508.Theorems.C13b", "Pep508.Theorems.NonVacuityA"],
        "theorems": ["Pep508.C13.evaluate_extras_iff_val", "Pep508.C13.evaluate_extras_exact_val", "Pep508.C13.edges_inhabited_val", "Pep508.C13.evaluate_extras_val_needs_sep", "Pep508.C13.evaluate_extras_sound", "Pep508.C13.evaluate_extras_false", "Pep508.evalExtras_sound",
                     "Pep508.C13.evaluate_extras_exact", "Pep508.C13.evaluate_extras_iff_dense", "Pep508.C13.evaluate_extras_false_iff",
                     "Pep508.C13.evaluate_extras_iff_partial", "Pep508.C13.exact_fails_over_int", "Pep508.C13.exact_fails_unordered"],
        "suites": [{"name": "algebra", "args": ["C13"]}],
        "rule": "a pool of markers is built through the real API along random construction paths (typed expressions, and/or/negate, simplify_extras, "
                "simplify/complexify_python_versions, plus shapes generated on purpose); every pool marker is evaluated with four extras sets through evaluate_extras, evaluate_optional_environment(None) and "
                "evaluate_extras_and_python_version; bits are compared with the model (Tree.evalExtras on the literal dump); soundness is checked existentially over "
                "region environments; non-trivial = distinct marker dumps",
        "trusted": ["'variables are independent' is the model's environment (one free value per diagram variable): exactness is a theorem there; dependencies between diagram variables of the real code (`'x' in os_name` vs `os_name == 'y'`) are outside it, as the property states"], "assumptions": ["every valid interval of the value order is inhabited (dense order), or every edge interval of the diagram is inhabited"],
    },
    "C12": {
        "lean_targets": ["Pep508.Theorems.C12c", "Pep508.Theorems.C12", "Pep508.Theorems.C12b", "Pep508.Theorems.NonVacuityA"],
        "theorems": ["Pep508.C12.complexify_eq_and_all", "Pep508.C12.complexify_simplify_all", "Pep508.C12.simplify_complexify_all", "Pep508.C12.simplify_idem_uncond", "Pep508.C12.simplify_congr_val", "Pep508.C12.complexify_congr_val", "Pep508.C12.simplify_eq_iff_val", "Pep508.C12.simplify_eval_below_val", "Pep508.C12.simplify_eval_above_val", "Pep508.C12.bounds_complexify", "Pep508.C12.bounds_simplify", "Pep508.C12.simplify_congr_val_needs_sep_marker", "Pep508.C12.simplify_congr_val_needs_sep_range", "Pep508.C12.simplify_congr_rel", "Pep508.C12.complexify_congr_rel", "Pep508.C12.complexify_eval", "Pep508.C12.simplify_eval_inside", "Pep508.C12.complexify_wf", "Pep508.C12.simplify_wf",
                     "Pep508.C12.complexify_eq_and", "Pep508.C12.complexify_simplify", "Pep508.C12.complexify_congr",
                     "Pep508.C12.eval_pyRangeMarker", "Pep508.C12.wf_pyRangeMarker", "Pep508.simplifyEdges_ne_nil", "Pep508.filter_part",
                     "Pep508.C12.simplify_congr", "Pep508.C12.simplify_eq_iff", "Pep508.C12.simplify_complexify", "Pep508.C12.simplify_idem_all",
                     "Pep508.C12.simplify_eval_below", "Pep508.C12.simplify_eval_above", "Pep508.C12.nonempty_iff_valid",
                     "Pep508.C12.simplify_not_mentions", "Pep508.C12.simplify_empty_pv_node", "Pep508.C12.simplify_congr_empty_false",
                     "Pep508.C12.simplify_complexify_empty_false"],
        "suites": [{"name": "algebra", "args": ["C12"]}],
        "rule": "a pool of markers is built through the real API along random construction paths (typed expressions, and/or/negate, simplify_extras, "
                "simplify/complexify_python_versions, plus shapes generated on purpose); for random (marker, lower, upper) with bounds from {unbounded, included, excluded} x a literal pool with trailing zeros and pre/post/dev/epoch decorations "
                "(empty and inverted ranges included): complexify and simplify are applied one step from the literal dump and compared with the model; complexify(m,R) == "
                "m and (pfv in R) as markers; complexify(simplify) / simplify(complexify) identities for non-empty R; agreement on R => equal simplifications (a second marker "
                "that agrees on R is synthesised); meaning inside/outside R on region environments; every call under catch_unwind; non-trivial = distinct op case",
        "trusted": [], "assumptions": ["diagram identities: dense order without end points (instance Rat); meaning / wf / panic-freedom theorems: none"],
    },
    "C10": {
        "lean_targets": ["Pep508.Theorems.C10", "Pep508.Theorems.NonVacuityB"],
        "theorems": ["Pep508.C10.python_version_sem", "Pep508.C10.ne_is_not_eq", "Pep508.C10.neStar_is_not_eqStar", "Pep508.C10.notIn_is_not_in",
                     "Pep508.C10.python_version_in_sem", "Pep508.C10.python_version_wf", "Pep508.mem_releaseSpecToRange", "Pep508.specSem_normalize",
                     "Pep508.Ranges.mem_union", "Pep508.Ranges.mem_complement", "Pep508.eval_rangeNode"],
        "suites": [{"name": "pyver", "args": ["C10"]}],
        "rule": "all 10 operator forms x 29 literals (1-4 release segments, trailing zeros, pre/post/dev/epoch/local decorations) for python_version, each PEP 440-valid "
                "combination: the typed expression's dump is compared with the model; it is evaluated on a dense grid X in {2,3,4}, Y in 0..13, Z in {0,1,9} against PEP 440 "
                "release comparison of X.Y written from the PEP; != vs == and not in vs in are compared as markers for ALL literals; both operand orders and the parsed text must "
                "equal the typed expression; in/not-in lists (fixed and random); combine/cancel identities with python_full_version; non-trivial = expressions that are "
                "neither constantly true nor false on the grid",
        "trusted": ["pep440_rs parses the literal; only its release segments reach the model"], "assumptions": [],
    },
    "C01": {
        "lean_targets": ["Pep508.Theorems.Tables", "Pep508.Theorems.C17b", "Pep508.Theorems.C01b", "Pep508.Theorems.C01", "Pep508.Theorems.C10", "Pep508.Theorems.NonVacuityB"],
        "theorems": ["Pep508.Tables.string_key_order", "Pep508.Tables.version_key_order", "Pep508.Tables.key_names_agree", "Pep508.Tables.key_names_cover", "Pep508.Tables.key_reads_the_field_it_is_displayed_as", "Pep508.Tables.operator_tokens_agree", "Pep508.Tables.operator_invert_agrees", "Pep508.Tables.operator_to_pep440_agrees", "Pep508.C17.atom_shape", "Pep508.C17.atom_key_in_string", "Pep508.C17.atom_key_notin_string", "Pep508.C17.atom_string_in_key", "Pep508.C17.atom_string_notin_key", "Pep508.C01.layout_parses", "Pep508.C01.layout_parses_cursor", "Pep508.C01.layout_then_junk", "Pep508.C01.layout_parses_sub", "Pep508.C01.more_fuel_same", "Pep508.C01.layout_independent", "Pep508.C01.paren_transparent", "Pep508.C01.atom_key_op_string", "Pep508.C01.atom_string_op_key", "Pep508.C01.kwStop_iff", "Pep508.C01.quote_then_keyword", "Pep508.C01.keyword_glued_right", "Pep508.C01.keyword_glued_left", "Pep508.C01.expr_version", "Pep508.C01.expr_version_in", "Pep508.C01.expr_string", "Pep508.C01.expr_in", "Pep508.C01.expr_not_in",
                     "Pep508.C01.expr_contains", "Pep508.C01.expr_not_contains", "Pep508.C01.expr_extra", "Pep508.C01.expr_wf", "Pep508.C01.skeleton",
                     "Pep508.C01.parse_total", "Pep508.C01.inverted_string", "Pep508.C10.python_version_sem"],
        "suites": [{"name": "pyver", "args": ["C01"]}, {"name": "mparse", "args": ["C01"]}],
        "rule": "(1) every operator form x literal for the three version keys on the dense interpreter grid against PEP 440 written from the PEP, dumps compared with the model; "
                "(2) random marker ASTs (version / in-list / string / substring in both orders / extra atoms, deprecated spellings, and/or to depth 3) are rendered with random "
                "layouts (optional whitespace incl. Unicode spaces, none between and/or and a parenthesis or quote, redundant parentheses, either quote style, inverted "
                "operands), parsed in a worker process, compared with the Lean parser model (dump, warning kinds, error spans) and with the marker built from the AST through "
                "the typed API; evaluate / evaluate_reporter / evaluate_collect_warnings / evaluate_optional_environment are compared with an independent evaluator of the "
                "AST on region environments; non-trivial = distinct accepted texts",
        "trusted": ["Version / VersionPattern parsing (pep440_rs) enters the model as a per-case table; char::is_alphabetic likewise"],
        "assumptions": ["environments are final releases with python_version = major.minor of python_full_version (the property's quantifier)"],
    },
    "C06": {
        "ext_in_quick": True,
        "lean_targets": ["Pep508.Theorems.C06", "Pep508.Theorems.C19b", "Pep508.Theorems.NonVacuityC"],
        "theorems": ["Pep508.C06.marker_tree_never_panics", "Pep508.C06.marker_tree_err_span", "Pep508.C06.marker_tree_err_sliceable",
                     "Pep508.C06.marker_expression_never_panics", "Pep508.C06.marker_expression_err_span", "Pep508.C06.take_while_sliceable",
                     "Pep508.parseMarkers_total", "Pep508.descentOK", "Pep508.Cursor.takeWhile_slice",
                     "Pep508.C06.requirement_never_panics", "Pep508.C06.requirement_err_span", "Pep508.C06.requirement_external_calls",
                     "Pep508.C06.requirement_url_ends_span", "Pep508.C06.requirement_url_ends_ok_span", "Pep508.C19.unnamed_no_panic", "Pep508.C19.unnamed_err_boundary", "Pep508.C06.display_never_panics", "Pep508.C06.marker_tree_err_renderable", "Pep508.C06.marker_expression_err_renderable", "Pep508.C06.requirement_err_renderable", "Pep508.C06.display_underlines_within", "Pep508.C06.extras_never_panic", "Pep508.C06.name_never_panics"],
        "suites": [{"name": "mparse", "args": ["C06"]}, {"name": "req", "args": ["C06"]}],
        "rule": "marker texts: the full operand-kind x operator x operand-kind table, derivations x layouts, and hostile mutations (multi-byte characters at token boundaries, "
                "U+3000/U+0085 whitespace, NUL, lone quotes, truncations) through MarkerTree::parse_reporter and MarkerExpression::parse_reporter; requirement texts: derivations "
                "x layouts and hostile mutations of seeds that exercise every scanner (names/extras with trailing punctuation, brackets, URLs, specifiers) through "
                "Requirement::parse_reporter / from_str and Extras::parse; every call runs in a worker process under catch_unwind followed by a liveness probe (a poisoned "
                "interner is itself reported), every error is formatted with Display and its span start checked for a char boundary; outcomes (ok dump / error class+span / panic) "
                "are compared with the Lean parser models; non-trivial = distinct operand-kind/operator classes and texts",
        "trusted": ["unnamed requirements (feature build) are covered by the oracle only: C19"],
        "assumptions": ["unbounded parenthesis nesting exhausts the Rust stack; not claimed (the model's fuel is proved sufficient, the stack is not modelled)"],
    },
    "C17": {
        "ext_in_quick": True,
        "lean_targets": ["Pep508.Theorems.C17b", "Pep508.Theorems.C17", "Pep508.Theorems.NonVacuityB"],
        "theorems": ["Pep508.C17.drop_is_removal", "Pep508.C17.warnings_in_order", "Pep508.C17.every_warning_reported", "Pep508.C17.dropped_reports", "Pep508.C17.pruned_atoms", "Pep508.C17.nothing_remains_iff", "Pep508.C17.parse_is_pruned", "Pep508.C17.uninterpretable_anywhere", "Pep508.C17.parse_same_tree", "Pep508.C17.parse_all_dropped", "Pep508.C17.pruned_wf_iff", "Pep508.C17.pruned_wf_can_fail", "Pep508.C17.atom_shape", "Pep508.C17.atom_string_op_string", "Pep508.C17.atom_key_op_key", "Pep508.C17.shape_dropped", "Pep508.C17.word_operator_needs_alpha", "Pep508.C17.example_paren_or", "Pep508.C17.reported_and_dropped", "Pep508.C17.never_silently", "Pep508.C17.version_kept_quiet", "Pep508.C17.chain_skips_dropped",
                     "Pep508.C17.chain_first_kept", "Pep508.dispatch_strKey_quoted", "Pep508.dispatch_quoted_strKey", "Pep508.dispatch_extra_valid", "Pep508.dispatch_extra_invalid"],
        "suites": [{"name": "mparse", "args": ["C17"]}],
        "rule": "the complete table {version key, string key, extra, quoted literal} x 11 operators x the same four kinds, several literals per kind (valid/invalid versions, "
                "wildcards, lists, local versions, valid/invalid extra names), both as a lone expression and inserted into `os_name == 'a' and ...`; the expression, the warning "
                "kinds and the surrounding marker are compared with the Lean dispatch model and with the property text (reported with the matching kind and dropped; meaningful "
                "comparisons silent except invalid extra names); plus hostile texts; non-trivial = distinct (kind, operator, kind) classes",
        "trusted": ["that evaluation-time warning collection does not change results is checked by the C01 suite (four entry points)"], "assumptions": [],
    },
    "C07": {
        "ext_in_quick": True,
        "lean_targets": ["Pep508.Theorems.C08b", "Pep508.Theorems.C07", "Pep508.Theorems.C07b", "Pep508.Theorems.C06", "Pep508.Theorems.C17", "Pep508.Theorems.C18", "Pep508.Theorems.NonVacuityC"],
        "theorems": ["Pep508.C08.requirement_layout_full", "Pep508.C08.requirement_layout_components", "Pep508.C08.requirement_layout_independent", "Pep508.C08.requirement_layout_independent_den", "Pep508.C08.layout_full_never_rejected", "Pep508.C08.k2_instance_loose", "Pep508.C08.k2_instance_independent", "Pep508.C08.empty_marker_rejected", "Pep508.C07.layout_accepted", "Pep508.C07.layout_accepted_marker", "Pep508.C07.layout_calls", "Pep508.C07.layout_calls_spans",
                     "Pep508.C07.recorded_texts_trim", "Pep508.C07.layout_never_rejected", "Pep508.C07.layout_components", "Pep508.C07.layout_components_marker",
                     "Pep508.C07.whitespace_irrelevant", "Pep508.C07.whitespace_irrelevant_marker", "Pep508.C07.printed_is_layout",
                     "Pep508.C07.url_semicolon_glued_swallows_marker", "Pep508.C07.trailing_blank_after_url_semicolon_changes_outcome",
                     "Pep508.C07.blank_inside_url", "Pep508.C07.empty_parentheses_call",
                     "Pep508.C07.name_accepted", "Pep508.C07.leading_ws_same_diagnosis", "Pep508.C18.parse_url_is_rule", "Pep508.C06.requirement_never_panics",
                     "Pep508.C06.requirement_external_calls", "Pep508.parseMarkers_total", "Pep508.C17.chain_skips_dropped"],
        "suites": [{"name": "req", "args": ["C07"]}, {"name": "mparse", "args": ["C07"]}],
        "rule": "grammar derivations (name x optional extras x none | bare specifiers | parenthesised specifiers | @ URL x optional marker) over pools of names, extras, PEP 440 "
                "specifiers, URLs and marker ASTs, each rendered with two random whitespace layouts; accepted, components compared with independently computed expectations "
                "(normalized name, extras in order, specifier set via pep440_rs, URL via url after variable expansion, marker built from the AST), the two layouts must agree; "
                "every outcome is compared with the Lean requirement-parser model (slices handed to the external parsers are re-parsed by the real crates); non-trivial = distinct texts",
        "trusted": ["PEP 440 specifier and URL grammars are external (pep440_rs, url)"], "assumptions": [],
    },
    "C05": {
        "lean_targets": ["Pep508.Theorems.Tables", "Pep508.Theorems.C05", "Pep508.Theorems.C05b", "Pep508.Theorems.NonVacuityB"],
        "theorems": ["Pep508.Tables.string_key_display_agrees", "Pep508.Tables.version_key_display_agrees", "Pep508.Tables.operator_display_agrees", "Pep508.Tables.operator_negate_agrees", "Pep508.Tables.operator_negate_agrees_versions", "Pep508.C05.to_dnf_sound_norm", "Pep508.C05.collect_exact_norm", "Pep508.C05.common_term_holds_norm", "Pep508.C05.to_dnf_sound_built",
                     "Pep508.C05.built_invariants", "Pep508.C05.spelling_hypothesis_satisfiable", "Pep508.C05.old_spelling_hypothesis_unsatisfiable",
                     "Pep508.C05.display_parse_roundtrip_sep", "Pep508.C05.display_parse_roundtrip", "Pep508.C05.display_parse_roundtrip_iff",
                     "Pep508.C05.display_parse_equiv", "Pep508.C05.display_parses", "Pep508.C05.show_is_layout", "Pep508.C05.layout_wf",
                     "Pep508.C05.atom_reparses", "Pep508.C05.expression_text_parses", "Pep508.C05.dnf_forms", "Pep508.C05.rebuild_identity",
                     "Pep508.C05.rebuild_sound", "Pep508.C05.false_text_reparses", "Pep508.C05.false_not_canonical",
                     "Pep508.C05.deprecated_key_not_identical", "Pep508.C05.both_quotes_rejected", "Pep508.C05.xRead_readsPrinted",
                     "Pep508.C05.simplify_sound", "Pep508.C05.is_negation_sound", "Pep508.C05.false_literal", "Pep508.C05.quote_choice",
                     "Pep508.collectEdges_spec", "Pep508.redundantTerms_inv"],
        "suites": [{"name": "algebra", "args": ["C05"]}],
        "rule": "a pool of markers is built through the real API along random construction paths (typed expressions, and/or/negate, simplify_extras, "
                "simplify/complexify_python_versions, plus shapes generated on purpose); for every pool marker: to_dnf() and the Display text are compared with the Lean DNF model (path collection with collect_edges, inequality and star-range "
                "recognition, the batched redundant-term and clause elimination, rendering) given the version spellings interned in this process; Display / try_to_string / "
                "contents() / serde must agree; the text must parse back to an == marker (equivalence for FALSE and deprecated spellings, as the property states); the DNF clauses "
                "are evaluated term by term on region environments against the marker; top_level_extra is checked against satisfying assignments; non-trivial = distinct texts",
        "trusted": ["diagrams in which one version value is interned under two spellings (K1) are compared semantically only"], "assumptions": ["ExtReadsPrinted x: the external version parser reads back what the printer prints (witnessed by a concrete decoder; the real pep440_rs below u64::MAX)", "SpellOK spell (normalised releases are printed under a spelling that strips back to them; witnessed)", "text round trip: bounds separated from version 0 / NUL-terminated strings, values with at most one kind of quote, modern key spellings (the carve-outs are proved necessary)"],
    },
    "C08": {
        "ext_in_quick": True,
        "lean_targets": ["Pep508.Theorems.C08b", "Pep508.Theorems.C05", "Pep508.Theorems.C08", "Pep508.Theorems.NonVacuityC"],
        "theorems": ["Pep508.C08.requirement_roundtrip_full", "Pep508.C08.requirement_roundtrip_true", "Pep508.C08.requirement_roundtrip_false", "Pep508.C08.requirement_roundtrip", "Pep508.C08.requirement_roundtrip_identity", "Pep508.C08.printed_never_rejected", "Pep508.C08.unnamed_roundtrip_full", "Pep508.C08.k1_instance", "Pep508.C08.k1_instance_url", "Pep508.C08.printed_form", "Pep508.C08.roundtrip", "Pep508.C08.roundtrip_marker", "Pep508.C08.marker_cursor",
                     "Pep508.C08.calls", "Pep508.C08.calls_spans", "Pep508.C08.never_rejected", "Pep508.C08.name_fixed",
                     "Pep508.C08.no_dot_not_archive", "Pep508.C08.url_semicolon_marker_rejected", "Pep508.C08.archive_name_rejected",
                     "Pep508.C05.false_literal", "Pep508.C05.quote_choice"],
        "suites": [{"name": "req", "args": ["C08"]}],
        "rule": "accepted requirement derivations (name x extras x none/bare/parenthesised specifiers/@ URL incl. `;`/`#`/`${VAR}` inside x marker) are rendered, re-parsed, compared "
                "field by field (marker by equivalence only for FALSE / deprecated spellings), re-rendered, and sent through serde_json both ways; every parse outcome is compared "
                "with the Lean requirement-parser model; non-trivial = distinct accepted texts",
        "trusted": ["pep440_rs / url printers re-parse to themselves (checked on every generated value by the round trip itself)"], "assumptions": [],
    },
    "C16": {
        "lean_targets": ["Pep508.Theorems.C16", "Pep508.Theorems.NonVacuityD"],
        "theorems": ["Pep508.C16.cmp_eq_iff", "Pep508.C16.cmp_eq_iff_beq", "Pep508.C16.cmp_swap", "Pep508.C16.cmp_trans", "Pep508.C16.cmp_trans_le",
                     "Pep508.C16.cmp_total", "Pep508.C16.sorted_unique", "Pep508.C16.strictSorted_unique", "Pep508.Tree.cmp_transAt", "Pep508.cmpIvl_eq_iff"],
        "suites": [{"name": "hist", "args": ["C16"]}],
        "rule": "a pool of markers is built through the real API along random construction paths (typed expressions, and/or/negate, simplify_extras, "
                "simplify/complexify_python_versions, plus shapes generated on purpose); random pairs/triples: cmp is compared with the Lean transcription of the structural Ord (variant order, key, Ranges bound comparison, lexicographic edges); "
                "cmp == Equal iff ==, antisymmetry, transitivity, equal => equal hash; a table of requirement strings (same URL under different verbatim texts / variable expansion / host case, "
                "specifier and extras order, markers in different spellings) is checked pairwise and in triples for Eq/Ord/Hash agreement of Requirement and VerbatimUrl; order across fresh "
                "processes is part of the C14 histories; non-trivial = pairs that are not equal",
        "trusted": [], "assumptions": [],
    },
    "C18": {
        "ext_in_quick": True,
        "lean_targets": ["Pep508.Theorems.Tables", "Pep508.Theorems.C18", "Pep508.Theorems.C18b", "Pep508.Theorems.NonVacuityC", "Pep508.Theorems.C19d"],
        "theorems": ["Pep508.C19.fragment_verbatim", "Pep508.C19.no_fragment", "Pep508.C19.normalize_idempotent", "Pep508.Tables.scheme_tables", "Pep508.Tables.schemes_are_schemes", "Pep508.C18.scan_is_rule", "Pep508.C18.rule_url", "Pep508.C18.rule_ambiguous", "Pep508.C18.parse_url_is_rule", "Pep508.parseUrl_total",
                     "Pep508.C18.expand_meets_spec", "Pep508.C18.spec_functional", "Pep508.C18.expand_iff_spec", "Pep508.C18.reference_anywhere",
                     "Pep508.C18.set_variable", "Pep508.C18.unset_variable", "Pep508.C18.project_root_unset", "Pep508.C18.lookupVar_none_iff",
                     "Pep508.C18.no_rescan", "Pep508.C18.dollar_without_brace", "Pep508.C18.unclosed_reference", "Pep508.C18.empty_name",
                     "Pep508.C18.bad_name", "Pep508.C18.fuel_suffices", "Pep508.C18.no_dollar_unchanged"],
        "suites": [{"name": "req", "args": ["C18"]}],
        "rule": "EXHAUSTIVE URL tails of length <= 4 (quick) / 5 (thorough) over {x ; # space newline} x five following contexts (end, spaced marker, comment, glued marker, tabs), plus "
                "16 URL texts with `${NAME}` forms (set / unset / empty / lower-case / unterminated / doubled / PROJECT_ROOT / values containing `;#` and `${...}`) x four process environments: "
                "the outcome is compared with the Lean model (urlScan, expandEnvVars) and with the URL-end rule written from the property statement; given() must be the unexpanded slice and "
                "the parsed URL the url-crate parse of the expanded text; expand_env_vars is compared with an independent scanner and the model; non-trivial = distinct URL slices accepted",
        "trusted": ["url::Url::parse and its Display"], "assumptions": [],
    },
    "C14": {
        "lean_targets": ["Pep508.Theorems.C14c", "Pep508.Theorems.C14b", "Pep508.Theorems.NonVacuityE", "Pep508.Theorems.C14", "Pep508.Theorems.NonVacuityD"],
        "theorems": ["Pep508.C14.simplify_refines", "Pep508.C14.complexify_refines", "Pep508.C14.simplify_cache_untouched", "Pep508.C14.simplify_history_independent", "Pep508.C14.complexify_history_independent", "Pep508.C14.simplify_same_id_later", "Pep508.C14.complexify_same_id_later", "Pep508.C14.simplify_after_complexify", "Pep508.C14.simplify_panic_unreachable", "Pep508.C14.complexify_panic_unreachable", "Pep508.C14.restrict_refines", "Pep508.C14.restrict_history_independent", "Pep508.C14.restrict_same_id_later", "Pep508.C14.restrict_twice", "Pep508.C14.not_refines", "Pep508.C14.is_disjoint_refines_tree", "Pep508.C14.is_disjoint_history_independent", "Pep508.C14.seeded_bug_not_refines", "Pep508.C14.seeded_bug_history_dependent", "Pep508.C14.seeded_bug_repair", "Pep508.C14.inv_init", "Pep508.C14.ids_canonical", "Pep508.C14.old_ids_stable", "Pep508.C14.and_refines", "Pep508.C14.or_refines", "Pep508.C14.create_node_refines", "Pep508.C14.cache_transparent", "Pep508.C14.same_id_later", "Pep508.C14.history_independent", "Pep508.C14.and_after_any_history", "Pep508.andF_fuel_irrelevant"],
        "suites": [{"name": "hist", "args": ["C14"]}],
        "rule": "(1) the id-level model (arena + unique table + AND cache + complemented edges) is run by the driver on pool operands after random warm-up contents of the arena and cache: "
                "its result must denote Tree.and of the operands, equal the implementation's dump, be stable under a cache hit, under operand swap and in a fresh arena, and ids must be "
                "injective; the same for the id-level restrict (simplify_extras, after restrictions of the warm-up diagrams under other extras), negation, is_disjoint (iops) and "
                "simplify / complexify_python_versions (ipy, after the warm-up diagrams went through them under other ranges); (2) one query script (parse x6, and/or/not/simplify_extras x7) runs in fresh worker processes after four histories (none, 30 unrelated markers, the same "
                "literals under other spellings first, the same work in opposite order): dumps, DNF, text, pairwise ==, cmp and hash-consistency are compared across processes; "
                "non-trivial = (round, history) pairs",
        "trusted": ["FxHashMap / boxcar are assumed to be a correct map / append-only vector"], "assumptions": [],
    },
    "C15": {
        "lean_targets": ["Pep508.Theorems.C14b", "Pep508.Theorems.NonVacuityE", "Pep508.Theorems.C15", "Pep508.Theorems.NonVacuityD"],
        "theorems": ["Pep508.C15.schedule_inv'", "Pep508.C15.step_result_independent_of_interleaving'", "Pep508.C15.restrict_independent_of_interleaving", "Pep508.C15.racing_threads_same_id'", "Pep508.C15.schedule_inv", "Pep508.C15.step_result_independent_of_interleaving", "Pep508.C15.racing_threads_same_id", "Pep508.C14.and_refines", "Pep508.C14.ids_canonical"],
        "suites": [{"name": "hist", "args": ["C15"]}],
        "rule": "2, 8 and 16 threads released by a barrier execute the same script (parse, and, or, not, simplify_extras, render, DNF, ==, cmp, hash) on literals salted per run so that all "
                "threads race to create the same NEW nodes; every thread's transcript must equal the others' and a sequential run in a fresh process; panics and a 60 s deadlock "
                "watchdog are reported; non-trivial = (round, thread count) pairs",
        "trusted": ["memory ordering of the lock-free arena reads and deadlock-freedom of std::sync::Mutex are outside any executable model"], "assumptions": [],
    },
    "C19": {
        "ext_in_quick": True,
        "lean_targets": ["Pep508.Theorems.Tables", "Pep508.Theorems.C08b", "Pep508.Theorems.C19", "Pep508.Theorems.C19b", "Pep508.Theorems.C19c", "Pep508.Theorems.C19d", "Pep508.Theorems.NonVacuityC"],
        "theorems": ["Pep508.C19.fragment_verbatim", "Pep508.C19.no_fragment", "Pep508.C19.relative_of_head", "Pep508.C19.components_clean", "Pep508.C19.normalize_idempotent", "Pep508.C19.normalize_starts_with_slash", "Pep508.C19.normalize_no_dot_segments", "Pep508.C19.normalize_segments", "Pep508.C19.escapes_iff", "Pep508.C19.slashes_and_dots_irrelevant", "Pep508.C19.double_slash_irrelevant_path", "Pep508.C19.dot_irrelevant_path", "Pep508.C19.trailing_slash_irrelevant_path", "Pep508.C19.strip_host_suffix", "Pep508.C19.strip_host_localhost", "Pep508.C19.strip_host_empty_host", "Pep508.C19.strip_host_other_host", "Pep508.C19.strip_host_no_host", "Pep508.Tables.archive_lists", "Pep508.Tables.archive_extensions_accepted", "Pep508.C08.unnamed_roundtrip_full", "Pep508.C08.unnamed_layout_full", "Pep508.C19.unnamed_no_panic", "Pep508.C19.unnamed_err_boundary", "Pep508.C19.unnamed_call_span", "Pep508.C19.scan_is_rule", "Pep508.C19.parse_unnamed_url_is_rule", "Pep508.C19.rule_is_first_stop", "Pep508.C19.token_no_ws", "Pep508.C19.ws_in_brackets", "Pep508.C19.accepts", "Pep508.C19.accepts_marker", "Pep508.C19.roundtrip", "Pep508.C19.roundtrip_marker", "Pep508.C19.bracket_ambiguity", "Pep508.C19.old_requirement_end", "Pep508.C19.archive_rule", "Pep508.C19.scheme_rule", "Pep508.C19.path_unsupported", "Pep508.C19.path_never_accepted",
                     "Pep508.C19.scheme_url_unsupported", "Pep508.C19.scheme_url_never_accepted", "Pep508.C19.relpath_unsupported",
                     "Pep508.C19.relpath_never_accepted", "Pep508.C19.archive_name_unsupported", "Pep508.C19.archive_name_extras_unsupported",
                     "Pep508.C19.archive_name_never_accepted", "Pep508.C19.scheme_not_a_name", "Pep508.C19.span_conventions"],
        "suites": [{"name": "req", "args": ["C19"]}, {"name": "req", "args": ["C19"], "features": "ext"}],
        "rule": "generated shapes (13 scheme forms x 7 rests, 7 first path segments incl. ones that are not valid names x 2 separators x 3 tails, every shape again behind 3 kinds of leading whitespace) and 33 hand-picked shapes (scheme URLs, absolute/relative/Windows/UNC paths, `.`/`..`, every pip archive extension incl. two-part ones, near misses such as `foo.tar.gz.sig`, `x.tar.gz2`) x six "
                "suffixes (none, extras, marker, both, spaced extras, trailing blanks): never accepted as a named requirement and rejected with the unsupported-requirement kind; every outcome "
                "is compared with the Lean model (looksLikeUnnamed, splitScheme, splitExtras, looksLikeArchive with the std::path extension rules); split_scheme / split_extras / strip_host are compared "
                "directly (also on texts with a 2-, 3- or 4-byte scalar at every position and C0 controls around the URL); non-trivial = distinct texts",
        "trusted": ["the unnamed-requirement parser (feature non-pep508-extensions) is exercised only when the harness is built with that feature (quick and thorough tier of C19, C08, C06, C18, C17; thorough tier of the others)"], "assumptions": [],
    },
}

PENDING = {}

NOT_APPLICABLE = {}

_NOTE = ("Trusted: Lean 4.33 kernel (+ propext, Classical.choice, Quot.sound, audited per theorem); the hand-written model is tied to the code by "
         "differential correspondence on generated cases (sampled, not proved); ")
MANIFEST_TEXT = {
    "C05": {
        "technique": "Lean 4 theorems: the model marker parser applied to the model Display of a diagram returns that diagram (display_parse_roundtrip_sep: well-formed, typed, printable, bounds separated; display_parse_equiv: an equivalent diagram without the separation condition); to_dnf is sound (to_dnf_sound_norm / _built); the quadratic simplifier preserves meaning  + translated tables (Display names of keys and operators, negate, regenerated from the sources on every run and proved equal to the model's by decide)"
                     "+ exact differential model of to_dnf and Display + round-trip oracle",
        "text": "display_parse_roundtrip_sep / display_parse_roundtrip_iff: parseMarkers (showMarker t) = t, via show_is_layout (the rendered text is a well-formed layout), atom_reparses (every DNF term's text parses back to the term, given an external version parser that reads what the printer prints: ExtReadsPrinted, witnessed by xRead), the parser compositionality theorem of C01b, rebuild_sound and relative canonicity (C03b). Carve-outs proved as theorems: false_text_reparses / false_not_canonical (FALSE), deprecated_key_not_identical, both_quotes_rejected. "
                "to_dnf_sound_norm: for every well-formed typed diagram with normalised bounds (closed under the API: built_invariants), every environment and every admissible spelling the DNF denotes the marker. The Lean DNF/rendering model equals the implementation clause for clause and character for character; Display -> parse -> == and serde agreement are decided on the implementation for every pool marker.",
        "note": _NOTE + "an audit found the spelling hypothesis of the first version of the DNF soundness theorems unsatisfiable (old_spelling_hypothesis_unsatisfiable): they were vacuous and are no longer registered; the repaired hypothesis is proved satisfiable (spelling_hypothesis_satisfiable) and every registered theorem now has a machine-checked non-vacuity witness (Theorems/NonVacuity*.lean). Spelling is a parameter (K1); pep440 parsing / printing is external (ExtReadsPrinted).",
    },
    "C08": {
        "technique": "Lean 4 theorem: the model requirement parser applied to the model Display of every well-formed requirement value returns that value (name, extras, the exact texts handed to the external specifier / URL parsers with their spans, marker as the marker parser reads it) and never rejects it; Display model compared with to_string() on every accepted requirement; round-trip oracle (Display, re-render, serde_json both ways)",
        "text": "roundtrip / roundtrip_marker / calls / calls_spans / never_rejected over all ReqVal satisfying the explicit predicate ReqVal.WF (what the printers of a parsed requirement guarantee); the two exclusions are proved necessary (url_semicolon_marker_rejected: F20; archive_name_rejected); implementation-level round trips of every accepted generated requirement, marker compared by equivalence only inside the property's carve-out.",
        "note": _NOTE + "partial: the theorem covers the glue (separators, token boundaries, URL end, blank before `;`); that pep440_rs / url re-parse their own printed texts to equal values, and that the marker text re-parses to the same marker (C05), are hypotheses of roundtrip_marker; C08b (Proofs/Compose.lean) discharges the marker hypothesis by composing the marker layout theorem (C01b) with the marker Display round trip (C05b): requirement_roundtrip_full returns the same DIAGRAM for every printable diagram with separated bounds, requirement_roundtrip_false is the FALSE carve-out, unnamed_roundtrip_full the unnamed form (model compared with the extension build of the harness); that pep440_rs / url re-parse their own printed texts stays external (implementation-level oracle).",
    },
    "C14": {
        "technique": "Lean 4 refinement proof: the id-level interner (append-only arena = unique table, AND memo cache, complemented edges, create_node normalisation) refines the "
                     "diagram model under an invariant that holds initially and is preserved by every step; executable cross-check on warmed arenas; fresh-process history oracle",
        "text": "andI_refines (a cache hit returns what recomputation would, whatever the arena holds), den_inj (ids canonical under any insertion order), den_mono (old ids stable), "
                "andI_same_id, andI_history_independent, createNodeI_spec, internTree_spec. Every observable that is a function of diagrams is therefore history independent. The "
                "driver runs the id-level model on warmed arenas for every case; fresh-process histories compare dumps, DNF, text, ==, cmp; spelling differences are K1.",
        "note": _NOTE + "the id-level model's tie to the Rust interner is structural (read from the code) plus the history oracle: NodeIds are not observable; FxHashMap / boxcar are "
                        "assumed to be a correct map / append-only vector; C14b models restrict / not / is_disjoint on ids (restrict_refines, restrict_history_independent, is_disjoint_refines) and proves that a restrict memo keyed by the node alone breaks the refinement (seeded_bug_*); C14c models simplify / complexify_python_versions on ids (simplify_refines, complexify_refines: the result denotes the diagram-level function whatever the arena and the memo hold; history independence; same id later; the two unwrap/assert sites are unreachable on well-formed diagrams with a valid range, and answered FALSE by the model elsewhere). All id-level operations are compared with the implementation on warmed arenas (iand / iops / ipy).",
    },
    "C15": {
        "technique": "Lean 4 theorems over schedules of atomic interner steps (any interleaving): per-thread results equal the sequential ones, racing creations get the same id; "
                     "racing-threads oracle with barrier release, fresh literals and a deadlock watchdog",
        "text": "schedule_inv, step_result_independent_of_interleaving, racing_threads_same_id over arbitrary schedules (lists of steps by any threads), from the C14 refinement; the primed versions for schedules that also contain restrict steps (C14b); that each "
                "public mutating call is one atomic step (the mutex is held for the whole recursion) is read from the code, not proved. 2/8/16 threads racing on identical fresh nodes "
                "are compared with each other and with a sequential fresh process.",
        "note": _NOTE + "partial by nature: memory ordering of lock-free reads, Mutex deadlock-freedom and the claim that the lock spans the whole recursion are outside the model.",
    },
    "C16": {
        "technique": "Lean 4 theorems: the structural Ord (Tree.cmp with the version-ranges bound comparison) is a lawful total order consistent with structural equality, for ALL diagrams; "
                     "compared with cmp of the implementation on every pair; Eq/Ord/Hash oracle for Requirement and VerbatimUrl",
        "text": "cmp = Equal iff equal, antisymmetry (swap), transitivity in all mixed forms, totality, uniqueness of sorted output (sorted_unique) proved by mutual structural recursion with a "
                "transitivity bundle closed under lexicographic combination; the implementation's cmp equals the model's on literal dumps; hash equality of == markers and the derived "
                "Eq/Ord/Hash of Requirement / VerbatimUrl (parsed URL only) are checked on pairs and triples.",
        "note": _NOTE + "Requirement's derived Ord/Hash and VerbatimUrl's three impls are checked by oracle, not modelled; Eq/Hash by NodeId = structure is C14.",
    },
    "C18": {
        "technique": "Lean 4 theorem: the URL scanning loop computes the declarative URL-end rule (first stop event, or ambiguity) for every input + exhaustive comparison on bounded "
                     "URL tails x contexts x environments; `${NAME}` expansion: declarative relation `Expands` proved to characterise the executable model (total, functional), compared with the code",
        "text": "urlScan_eq_urlEnd / parseUrl_eq_urlEnd with the first-stop characterisations (rule_url, rule_ambiguous) for all char lists; the slice is handed verbatim to the URL parser "
                "(given() = unexpanded text). expand_iff_spec: expandEnvVars env s = o iff Expands env s o (single left-to-right pass, set / unset / PROJECT_ROOT-when-unset, no re-scanning, malformed references copied); "
                "the executable definition is compared with the code on all generated texts x four environments.",
        "note": _NOTE + "url::Url::parse and the regex engine are external (the regex is re-implemented as matchVar and compared); F20's rule (parsed URL ending in `;`/`#` before a marker) is a recorded alternative resolved with the real url crate.",
    },
    "C19": {
        "technique": "Lean 4 theorems: every path, scheme URL, relative path and archive file name (with extras / marker / leading whitespace, any environment) is rejected by the model requirement parser with the unsupported-requirement kind and never accepted; declarative specs of looks_like_archive and split_scheme; differential model on generated shapes; unnamed parser by oracle + translated archive-extension lists (regenerated from the sources on every run and proved equal to the model's by decide)",
        "text": "path_unsupported, scheme_url_unsupported, relpath_unsupported, archive_name_unsupported(+extras) and *_never_accepted over all inputs of each shape; archive_rule / scheme_rule characterise the helper functions; every generated shape x suffix is compared between implementation and model and judged by the oracle.",
        "note": _NOTE + "both halves are theorems about the models: default feature — never a name, dedicated error kind (paths, scheme URLs, relative paths, archive names; extras / marker suffixes, leading whitespace, any environment); extension feature — the unnamed parser model never panics, errors on char boundaries, token scan = declarative rule with bracket depth, acceptance and recovery of verbatim text / extras / marker, round trip of the printed form, bracket ambiguity proved. The unnamed model is tied to the code in the extension build of the harness (quick and thorough tier; the default build does not compile src/unnamed.rs); building the URL value from the classified text is external.",
    },
    "C10": {
        "technique": "Lean 4 theorem: the diagram of `python_version OP V` evaluates as PEP 440 release comparison of X.Y (all operators, all literals outside the carve-out), "
                     "negation clauses as structural equalities + dense-grid oracle and dump correspondence",
        "text": "eval_expression_pyVer over normalize_specifier / python_version_to_full_version / release_specifier_to_range / from_range with a specification written from PEP 440 "
                "(cmpRel, prefixMatch); != / not in are exact complements for all literals; in-lists; well-formedness of every expression diagram (so C02/C03 give combine/cancel).",
        "note": _NOTE + "the pinned carve-out (wildcard / in-list member with > 2 segments) is excluded exactly as the property states; decorations never reach the model (release-only).",
    },
    "C01": {
        "technique": "Lean 4 theorems per expression form (PEP 440 / string order / substring / extra) + pointwise and/or (C02) + parser totality and dispatch inversion; "
                     "derivation x layout oracle with an independent AST evaluator for the text level + translated tables (key names, key -> environment field, operator tokens / invert / to_pep440, enum declaration orders regenerated from the sources on every run and proved equal to the model's by decide)",
        "text": "Each comparison form means what the PEPs say for all literals and environments; and/or skeletons are boolean (skeleton); the parser is total and inverts operands "
                "correctly. Every whitespace layout of a marker text (and/or chains of any length, parentheses of any depth) parses to the combination of what its atoms parse to alone (layout_parses, layout_independent; keyword boundaries kwStop_iff with proved negative examples); atoms `key op 'v'` and `'v' op key` are proved to parse as dispatch says.",
        "note": _NOTE + "every atom shape (key / quoted string on either side; symbolic operator, `in`, `not in`) is proved to satisfy the layout theorem's atom hypothesis (atom_shape; the word operators need the tokenizer class to hold on the letters i / n, proved necessary); pep440 literal parsing is external.",
    },
    "C06": {
        "technique": "Lean 4 theorem: the marker parsers never reach a panic site for any Unicode input and any behaviour of the external parsers (cursor invariant, fuel bound), "
                     "error spans start on char boundaries; requirement-level parsers by differential model + hostile-input oracle in worker processes",
        "text": "parseMarkers_never_panics / parseExpression_never_panics / parseRequirement_no_panic (names, extras, URL scan, specifier scans, unnamed detection, marker hand-off): "
                "no panic site is reachable for any Unicode input and any behaviour of the external parsers, every error span (and every span handed to pep440_rs / url) starts on a char "
                "boundary, and formatting such an error never slices off a boundary whatever its length field holds (display_never_panics, *_err_renderable); models compared with the code on hostile inputs in worker processes, every error rendered, every panic / poisoned lock reported.",
        "note": _NOTE + "Display's slicing is modelled (errDisplaySlices) and proved total for every span that starts on a char boundary, and compared with the printed underline on every error of the suites (unicode_width is an external function passed per case); stack exhaustion on unbounded nesting is outside the model; the unnamed parser of the extension feature is modelled (Model/Unnamed.lean: unnamed_no_panic, unnamed_err_boundary) and compared in the extension build of the harness; K3 (u64 overflow in debug builds) is a known finding.",
    },
    "C17": {
        "technique": "Lean 4 theorems: typed dispatch (for every behaviour of the external parsers); uninterpretable_anywhere / parse_is_pruned — for every well-formed marker text (any and/or/parenthesis structure, any layout) containing uninterpretable comparisons at any positions, parsing succeeds, every such comparison's warning reaches the reporter in order, and the result is the tree of the text with exactly those comparisons removed (TRUE if nothing remains) + exhaustive table and insertion correspondence",
        "text": "reported_and_dropped / never_silently / kept-comparisons-are-quiet; drop_is_removal, warnings_in_order, parse_is_pruned, parse_same_tree (the pruned text parses to the same tree), nothing_remains_iff; atom_shape covers every operand / operator shape incl. two literals, two keys, in / not in; pruned_wf_can_fail: removing a comparison textually can glue a key to a keyword (the one case where the pruned TEXT is not a marker); the full "
                "kind x operator x kind table and generated insertions at arbitrary positions are run through the real parser and compared.",
        "note": _NOTE + "reporter independence: the reporter is write-only in the model; evaluation-time collectors are compared by the C01 suite.",
    },
    "C07": {
        "technique": "Lean 4 theorem: the model requirement parser accepts EVERY whitespace layout of every well-formed requirement value (no kind, bare or parenthesised specifiers, URL; optional extras; optional marker) and returns the value's components, the same for all layouts "
                     "+ differential Lean model of the whole requirement parser + derivation x layout oracle",
        "text": "layout_accepted / layout_accepted_marker / layout_calls / whitespace_irrelevant over all values satisfying ReqVal.WFL and all layouts (13 independent whitespace runs, parenthesised or bare) satisfying the grammar's mandatory separator (Layout.Fits: a blank between URL and `;`; a URL ending in `;`/`#` takes no trailing blank — proved necessary by url_semicolon_glued_swallows_marker / trailing_blank_after_url_semicolon_changes_outcome); the texts handed to the external specifier parser are the specifier texts up to surrounding blanks (recorded_texts_trim). "
                "Derivations x layouts generated by the harness are accepted with exactly the derivation's components by the implementation; every outcome matches the model including error spans.",
        "note": _NOTE + "the marker parser's result on the marker text is a hypothesis of layout_accepted_marker and is a theorem in C08b requirement_layout_full for every well-formed layout of a marker derivation whose atoms satisfy AtomsOK (proved per comparison shape by C01b atom_key_op_string / atom_string_op_key and C17b atom_shape); pep440_rs accepting a specifier text with surrounding blanks is external; `===` inside markers is a known finding (K2).",
    },
    "C12": {
        "technique": "Lean 4 theorems: complexify = AND with the range marker (meaning for all bounds; identity of diagrams via the canonicity theorem), simplify agrees inside R, "
                     "both preserve well-formedness and cannot hit their unwrap/assert sites + one-step correspondence and identity oracles",
        "text": "complexify_eval / simplify_eval_inside for every well-formed marker and every pair of bounds; complexify_eq_and, complexify_simplify, complexify_congr, simplify_congr (agree on R => equal simplifications), simplify_complexify, simplify_idem as "
                "identities of diagrams (canonicity, dense orders); simplify_eval_below / above (what simplify does outside R); wf preservation and non-emptiness of the kept edge run; for empty / inverted R the identities are proved false and the exact behaviour stated.",
        "note": _NOTE + "the identities that go through canonicity (complexify_eq_and, complexify_simplify, complexify_congr, simplify_congr, simplify_complexify, simplify_idem) are proved for dense orders without end points (witnessed at Rat); at the model's own value type Val that class does not hold (C03b) and simplify_congr fails at the version-0 / adjacent-string shapes (NonVacuityA: simplify_congr_fails_at_Val); the meaning theorems (complexify_eval, simplify_eval_inside, wf preservation, panic freedom) need no such assumption. C12c: complexify_eq_and_all, complexify_simplify_all, simplify_complexify_all, simplify_idem_uncond hold over EVERY linear order (transfer along an order embedding into a dense order), so they hold at Val unconditionally; the congruences hold at Val for separated bounds (*_val) and the separation is proved necessary (*_needs_sep_*). Empty R: proved negations.",
    },
    "C04": {
        "technique": "Lean 4 theorems: is_disjoint is sound for every environment, symmetric, and equals (and == FALSE) (fuel induction mirroring the recursion) + verdict correspondence",
        "text": "isDisjointF_sound / _comm / _iff_andF over arbitrary linear orders; is_true/is_false soundness is definitional on the kind() view; tied to the code by "
                "comparing the verdict bits of is_disjoint (both orders) and (a and b).is_false() on literal operands, plus a region-environment oracle.",
        "note": _NOTE + "is_true/is_false completeness is C03; C04b: at the model's own value type the verdict of is_disjoint is EXACT for well-formed operands with separated bounds (is_disjoint_exact_val: true iff no environment satisfies both; no false negatives in the model), and the separation is needed (is_disjoint_val_needs_sep).",
    },
    "C11": {
        "technique": "Lean 4 theorems: restrict = evaluation under the overridden environment, result mentions no restricted variable (all markers), with_extra_marker = and; one-step correspondence",
        "text": "eval_restrict / restrict_mentionsB / OK_restrict proved for every restriction function and every diagram (so several restricted extras on one path are covered: "
                "the F15 defect); extra ==/!= expression meaning; with_extra_marker through C02. top_level_extra rests on the DNF model (C05).",
        "note": _NOTE + "ExtraName normalisation is C09; top_level_extra's clause is carried by the C05 machinery.",
    },
    "C13": {
        "technique": "Lean 4 theorem: evalExtras is an over-approximation of evaluation for every diagram (no well-formedness needed) + bit correspondence + existential oracle",
        "text": "evalExtras_sound: if any environment consistent with the extras satisfies the diagram then evaluate_extras answers true; contrapositive for false; evaluate_extras_iff_partial / evaluate_extras_exact: exact when every edge interval is inhabited. "
                "evaluate_extras_and_python_version is the same function on reachable diagrams (python_version nodes never exist).",
        "note": _NOTE + "soundness holds for every diagram and value type; exactness is proved under 'every edge interval of the diagram is inhabited' (evaluate_extras_iff_partial, usable at Val) or for dense orders; it fails for a diagram with the valid-but-empty edge (-inf, version 0) (NonVacuityA: evaluate_extras_exact_fails_at_Val), which is outside 'variables independent'; C13c evaluate_extras_iff_val: exact at Val for every well-formed diagram with separated bounds.",
    },
    "C20": {
        "technique": "Lean 4 theorems: the executable C20 predicate Tree.wf is preserved by and/or/not (product of partitions is a partition, coalescing restores "
                     "adjacent-distinct, create_node reduction, rank invariant) + the same predicate evaluated on implementation dumps + one-step correspondence",
        "text": "reach_wf: every diagram reachable from TRUE/FALSE/range atoms/boolean atoms through and, or, not, restrict, simplify_python_versions and "
                "complexify_python_versions (all bounds, all restrictions) satisfies Tree.wf, over arbitrary linear orders; key lemmas: the product of two partitions is a "
                "partition, coalescing restores adjacent-distinct children, the kept run of simplify/complexify is non-empty and contiguous (the Rust unwrap/assert sites). "
                "The same predicate is evaluated by the driver on every implementation dump, and a Rust oracle written from the property text walks kind().",
        "note": _NOTE + "that the range set of every *expression* is normalised (Ranges.Norm) is proved in the C01/C10 development; NodeId = structure is C14.",
    },
    "C09": {
        "technique": "Lean 4 theorems over a byte-level model of both name scanners + bounded-exhaustive differential correspondence",
        "text": "Seven theorems over ALL byte strings (acceptance iff valid, stored form = declarative normal form, owned = borrowed constructor, idempotence, "
                "equality, dist-info escaping, empty rejected) about a transcription of src/normalize/mod.rs; the model is tied to the code by exhaustive "
                "comparison on every string up to length 5/6 over one representative per character class plus random long names.",
        "note": _NOTE + "serde_json string decoding and std ASCII helpers are not modelled.",
    },
    "C02": {
        "technique": "Lean 4 theorem: and/or/not on the kind()-view diagram model are pointwise for every environment of every linear order (induction on fuel; "
                     "apply_ranges product/coalesce lemmas) + one-step differential correspondence on literal operands",
        "text": "andF_spec: for all well-formed diagrams and all environments over an arbitrary linear order, and = pointwise AND (or, not likewise), "
                "well-formedness preserved, identities/annihilators as structural equalities, lift to arbitrary and/or/not combinations (eval_build). The model's "
                "operations are tied to InternerGuard::and/or, NodeId::not by one-step differential comparison on operands built through every API.",
        "note": _NOTE + "memo cache and interner are outside this model (C14); version-ranges intersection/union re-implemented on single intervals.",
    },
    "C03": {
        "technique": "Lean 4 theorem: canonicity of reduced ordered interval-edge decision diagrams (wf x, wf y, equal in every environment => x = y) over dense "
                     "unbounded orders + law-based and exhaustive-truth-table oracles on the implementation",
        "text": "`canonical` (and is_true/is_false iff constant) proved by induction on size with partition-uniqueness and variable-independence lemmas; tied to the "
                "code through the C20 predicate evaluated on implementation dumps, one-step operation correspondence, ten algebraic laws and exhaustive truth tables "
                "over abstract valuations (the property's stated granularity).",
        "note": _NOTE + "the generic theorem assumes a dense order without end points (instance: Rat). The model's own value type Val is NOT such an order (version 0 is least; s and s+NUL are adjacent strings: val_not_dense_unbounded) and the statement really fails there at exactly those shapes (lt_zero_constantly_false: `python_full_version < '0'` is well-formed, constantly false, not FALSE; str_gap_constantly_false). C03b states canonicity at Val for diagrams whose bounds are separated from those points (canonical_relative, equal_iff_same_function_val, is_true/is_false_iff_val; separation is preserved by and/or/not). id = structure is C14.",
    },
}
